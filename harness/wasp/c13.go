package wasp

import (
	"github.com/vx-labs/wasp/v4/wasp/sessions"
	"bytes"

	"github.com/vx-labs/mqtt-protocol/packet"
	rt "github.com/vx-labs/wasp/v4/zzsymxrt"
)

var symxWillTopics = []string{"w", "w/x", "w/../x", "./w"}
var symxWatchFilters = []string{"w", "w/#", "#", "+/x", "other"}

func symxWillMatches(f, t string) bool {
	switch f {
	case "#":
		return true
	case "w/#":
		return t == "w" || t == "w/x" || t == "w/../x"
	case "+/x":
		return t == "w/x"
	}
	return f == t
}

// symxC13: a session with a will (solver-chosen topic, payload, retain) dies on node 1 for a
// solver-chosen cause; watchers with solver-chosen filters sit on node 1 and on node 2, in the
// dying session's mount point and in another one. Unclean endings - connection loss, timeout,
// protocol error, failure of the hosting node - publish the will inside the session's mount
// point, once per matching watcher; a clean DISCONNECT never does.
func symxC13() {
	symxResetNet()
	b1, b2 := symxNewBroker(1, 1), symxNewBroker(2, 1)
	symxNet.brokers[1], symxNet.brokers[2] = b1, b2
	p1 := b1.start(symxTransport{})
	p2 := b2.start(symxTransport{})
	_ = p2
	f1 := p1.front(&symxAuth{mountPoint: "m", ids: []string{"dying"}})
	wt := symxWillTopics[rt.Int("will_topic", 0, int64(len(symxWillTopics)-1))]
	wq := byte(rt.Int("will_qos", 0, 2))
	payload := []byte{rt.Byte("will_payload"), 'z'}
	if rt.Bool("empty_will_payload") {
		payload = []byte{} // a zero-length will message is a will like any other
	}
	retain := rt.Bool("will_retain")
	c := symxNewConn()
	rt.Assert(f1.connect(c, symxConnectBytes("cid", 30, "", []byte(wt), payload, wq, retain)) == nil, "C13.connect_accepted")
	rt.Quiesce()
	// by solver choice node 1 also hosts a will-bearing session of another tenant: it stays
	// connected unless the node itself fails, and then its will belongs to its own tenant
	second := rt.Param("second", 1) == 1 && rt.Bool("second_will_bearing_session_in_another_tenant")
	var cd *symxConn
	if second {
		f1n := p1.front(&symxAuth{mountPoint: "n", ids: []string{"dying2"}})
		c2 := symxNewConn()
		symxTick()
		rt.Assert(f1n.connect(c2, symxConnectBytes("cid2", 30, "", []byte("v"), []byte("w2"), 0, false)) == nil, "C13.connect_accepted")
		rt.Quiesce()
		var wd *sessions.Session
		wd, cd = b2.session("wd", "cwd", "n", 30)
		p2.proc.Process(b2.ctx, wd, cd, &packet.Subscribe{Header: &packet.Header{}, MessageId: 1, Topic: [][]byte{[]byte("#")}, Qos: []int32{0}})
	}
	// watchers: same tenant on node 1 and on node 2, another tenant on node 2
	fa, fb := symxWatchFilters[rt.Int("filter_local", 0, 4)], symxWatchFilters[rt.Int("filter_remote", 0, 4)]
	wa, ca := b1.session("wa", "cwa", "m", 30)
	wb, cb := b2.session("wb", "cwb", "m", 30)
	wc, cc := b2.session("wc", "cwc", "w", 30) // a tenant whose mount point equals the will's first level
	p1.proc.Process(b1.ctx, wa, ca, &packet.Subscribe{Header: &packet.Header{}, MessageId: 1, Topic: [][]byte{[]byte(fa)}, Qos: []int32{0}})
	p2.proc.Process(b2.ctx, wb, cb, &packet.Subscribe{Header: &packet.Header{}, MessageId: 1, Topic: [][]byte{[]byte(fb)}, Qos: []int32{0}})
	p2.proc.Process(b2.ctx, wc, cc, &packet.Subscribe{Header: &packet.Header{}, MessageId: 1, Topic: [][]byte{[]byte("#")}, Qos: []int32{0}})
	rt.Quiesce()
	symxExchange(b1, b2)
	symxExchange(b1, b2)
	symxTick()
	cause := rt.Int("cause", 0, 4)
	switch cause {
	case 0: // clean
		c.feed(symxDisconnect())
	case 1:
		c.feedEOF()
	case 2:
		c.timeout()
	case 3:
		c.feed(symxConnectBytes("cid", 30, "", nil, nil, 0, false))
	case 4: // the hosting node fails: the survivor is told by the membership layer
		NewNodeMemberManager(2, b2.log, b2.state).NotifyGossipLeave(1)
		rt.Quiesce()
		symxClockMs += 3100
		symxTick() // the 3 s grace timer of the survivor
	}
	rt.Quiesce()
	symxExchange(b1, b2)
	rt.Quiesce()
	check := func(conn *symxConn, filter string, reachable bool, label string) {
		got := symxPublishes(conn.written())
		want := 0
		if cause != 0 && reachable && symxWillMatches(filter, wt) {
			want = 1
		}
		rt.Assert(len(got) == want, label)
		for _, g := range got {
			rt.Assert(string(g.Topic) == wt && bytes.Equal(g.Payload, payload), "C13.will_delivered_with_its_topic_and_payload")
		}
	}
	// when node 1 itself failed, its local watcher is gone with it
	check(ca, fa, cause != 4, "C13.local_watcher_receives_the_will_exactly_when_due")
	check(cb, fb, true, "C13.remote_watcher_receives_the_will_exactly_when_due")
	rt.Assert(len(symxPublishes(cc.written())) == 0, "C13.other_tenant_never_sees_the_will")
	if second {
		got := symxPublishes(cd.written())
		if cause == 4 {
			rt.Assert(len(got) == 1 && string(got[0].Topic) == "v" && bytes.Equal(got[0].Payload, []byte("w2")), "C13.each_lost_session_has_its_will_published_in_its_own_mount_point")
		} else {
			rt.Assert(len(got) == 0, "C13.a_session_that_stays_connected_publishes_no_will")
		}
	}
	rt.Cover(cause == 4 && symxWillMatches(fb, wt), "C13.host_failure_with_matching_survivor_watcher")
	rt.Cover(cause == 1 && symxWillMatches(fa, wt) && symxWillMatches(fb, wt), "C13.connection_loss_two_watchers")
	b1.cancel()
	b2.cancel()
	rt.Quiesce()
}
