package wasp

import (
	"github.com/vx-labs/mqtt-protocol/packet"
	rt "github.com/vx-labs/wasp/v4/zzsymxrt"
)

// symxGossipLog keeps every broadcast ever exchanged, for late / reordered delivery to a third node.
var symxGossipLog [][]byte

func symxExchange(a, b *symxBroker) {
	for _, p := range rt.Drain(a.bq) {
		symxGossipLog = append(symxGossipLog, p)
		b.state.Distributor().NotifyMsg(p)
	}
	for _, p := range rt.Drain(b.bq) {
		symxGossipLog = append(symxGossipLog, p)
		a.state.Distributor().NotifyMsg(p)
	}
}

// symxC12: two connections sharing a client identifier, the second on the same or on another
// node (solver-chosen), with the old session's ping / subscribe / connection loss and the gossip
// deliveries interleaved in a solver-chosen order. The new session is always established, every
// node ends up resolving the identifier to it, the old one stops being served at its next
// keep-alive exchange, and tearing the old one down does not touch the new one.
func symxC12() {
	steps := rt.Param("events", 2)
	symxGossipLog = nil
	b1, b2 := symxNewBroker(1, 1), symxNewBroker(2, 1)
	p1, p2 := b1.start(nil), b2.start(nil)
	f1 := p1.front(&symxAuth{mountPoint: "m", ids: []string{"old", "new1"}})
	f2 := p2.front(&symxAuth{mountPoint: "m", ids: []string{"new2"}})
	cOld := symxNewConn()
	rt.Assert(f1.connect(cOld, symxConnectBytes("cid", 30, "", nil, nil, 0, false)) == nil, "C12.first_connect_accepted")
	rt.Quiesce()
	symxExchange(b1, b2) // the accepting node has learned of the earlier session
	symxTick()
	cNew := symxNewConn()
	symxCleanSession = !rt.Bool("second_connect_without_clean_session")
	defer func() { symxCleanSession = true }()
	newID, newB := "new1", b1
	if rt.Bool("second_on_other_node") {
		newID, newB = "new2", b2
		rt.Assert(f2.connect(cNew, symxConnectBytes("cid", 30, "", nil, nil, 0, false)) == nil, "C12.second_connect_accepted")
	} else {
		rt.Assert(f1.connect(cNew, symxConnectBytes("cid", 30, "", nil, nil, 0, false)) == nil, "C12.second_connect_accepted")
	}
	rt.Quiesce()
	codes := symxConnAcks(cNew.written())
	rt.Assert(len(codes) == 1 && codes[0] == packet.CONNACK_CONNECTION_ACCEPTED, "C12.new_session_always_established")
	symxTick()
	cNew.feed(symxSubscribeBytes(1, "n", 0))
	rt.Quiesce()
	oldAlive, newAlive := true, true
	merged := false // has the old session's node merged the takeover?
	if newB == b1 {
		merged = true
	}
	for step := 0; step < steps; step++ {
		symxTick()
		switch rt.Int("event", 0, 4) {
		case 4: // the displacing session ends cleanly
			if newAlive {
				cNew.feed(symxDisconnect())
				rt.Quiesce()
				newAlive = false
			}
		case 0:
			symxExchange(b1, b2)
			merged = true
		case 1: // old session pings
			if !oldAlive {
				break
			}
			before := symxCount(cOld.written(), packet.PINGRESP)
			cOld.feed(symxPingReq())
			rt.Quiesce()
			after := symxCount(cOld.written(), packet.PINGRESP)
			if merged {
				rt.Assert(after == before, "C12.displaced_session_gets_no_pingresp")
				rt.Assert(b1.local.Get("old") == nil, "C12.displaced_session_torn_down_at_its_ping")
				oldAlive = false
			}
			if after == before {
				oldAlive = false
			}
		case 2: // old session subscribes
			if oldAlive {
				cOld.feed(symxSubscribeBytes(9, "o", 0))
				rt.Quiesce()
			}
		case 3: // old session's connection is lost
			if oldAlive {
				cOld.feedEOF()
				rt.Quiesce()
				oldAlive = false
			}
		}
	}
	// settle: all gossip delivered, old session's next keep-alive exchange
	symxExchange(b1, b2)
	symxExchange(b1, b2)
	if oldAlive {
		symxTick()
		before := symxCount(cOld.written(), packet.PINGRESP)
		cOld.feed(symxPingReq())
		rt.Quiesce()
		rt.Assert(symxCount(cOld.written(), packet.PINGRESP) == before, "C12.old_session_stops_being_served_at_next_keepalive")
	}
	symxExchange(b1, b2)
	symxExchange(b1, b2)
	rt.Assert(b1.local.Get("old") == nil, "C12.old_session_gone")
	for _, b := range []*symxBroker{b1, b2} {
		md, err := b.state.SessionMetadatas().ByClientID("m", "cid")
		if !newAlive {
			rt.Assert(err != nil, "C12.identifier_resolves_to_nothing_once_the_new_session_ended_too")
			rt.Assert(len(b.state.Subscriptions().All()) == 0, "C12.no_subscription_left_once_both_sessions_ended")
			continue
		}
		rt.Assert(err == nil && md.SessionID == newID, "C12.every_node_resolves_the_identifier_to_the_new_session")
		subs := b.state.Subscriptions().All()
		found := false
		for _, s := range subs {
			rt.Assert(s.SessionID == newID, "C12.no_subscription_of_the_old_session_left")
			if s.SessionID == newID && string(s.Pattern) == "m/n" {
				found = true
			}
		}
		rt.Assert(found, "C12.new_sessions_subscription_survives_old_teardown")
	}
	rt.Assert((newB.local.Get(newID) != nil) == newAlive, "C12.new_session_still_registered")
	// a third node hears the same gossip late and out of order (the solver swaps two broadcasts)
	b3 := symxNewBroker(3, 1)
	// ... or hears only the beginning of it and is then repaired by a push/pull with node 1
	symxGossip(symxGossipLog, b1, b3)
	md3, err3 := b3.state.SessionMetadatas().ByClientID("m", "cid")
	if newAlive {
		rt.Assert(err3 == nil && md3.SessionID == newID, "C12.a_node_hearing_the_gossip_out_of_order_resolves_to_the_new_session")
		rt.Assert(len(b3.state.SessionMetadatas().All()) == 1, "C12.only_the_new_session_is_listed_on_a_late_node")
	} else {
		rt.Assert(err3 != nil && len(b3.state.SessionMetadatas().All()) == 0, "C12.nothing_listed_on_a_late_node_once_both_ended")
	}
	b3.cancel()
	rt.Cover(newB == b2, "C12.takeover_across_nodes")
	b1.cancel()
	b2.cancel()
	rt.Quiesce()
}
