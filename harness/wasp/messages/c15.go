package messages

import (
	"context"
	"errors"
	"io"
	"os"

	"github.com/tysontate/gommap"
	"github.com/vx-labs/commitlog"
	"github.com/vx-labs/commitlog/stream"
	"github.com/vx-labs/mqtt-protocol/packet"
	rt "github.com/vx-labs/wasp/v4/zzsymxrt"
)

// Persistent state of the model: the 8-byte consumer state file and the commit log.
// Everything that touches the file system or the commitlog files is redirected here:
//
//symx:stub os.Stat = github.com/vx-labs/wasp/v4/wasp/messages.symxStat
//symx:stub os.IsNotExist = github.com/vx-labs/wasp/v4/wasp/messages.symxIsNotExist
//symx:stub os.OpenFile = github.com/vx-labs/wasp/v4/wasp/messages.symxOpenFile
//symx:stub os.Remove = github.com/vx-labs/wasp/v4/wasp/messages.symxRemove
//symx:stub (*os.File).Truncate = github.com/vx-labs/wasp/v4/wasp/messages.symxFileTruncate
//symx:stub (*os.File).Fd = github.com/vx-labs/wasp/v4/wasp/messages.symxFileFd
//symx:stub (*os.File).Close = github.com/vx-labs/wasp/v4/wasp/messages.symxFileClose
//symx:stub github.com/tysontate/gommap.Map = github.com/vx-labs/wasp/v4/wasp/messages.symxMap
//symx:stub (github.com/tysontate/gommap.MMap).Sync = github.com/vx-labs/wasp/v4/wasp/messages.symxMMapSync
//symx:stub (github.com/tysontate/gommap.MMap).UnsafeUnmap = github.com/vx-labs/wasp/v4/wasp/messages.symxMMapUnmap
//symx:stub github.com/vx-labs/commitlog/stream.consume = github.com/vx-labs/wasp/v4/wasp/messages.symxStreamConsume
//symx:stub (encoding/binary.bigEndian).PutUint64 = github.com/vx-labs/wasp/v4/wasp/messages.symxPutUint64

type symxDiskT struct {
	exists bool
	state  [8]byte
}

var symxDisk symxDiskT
var symxErrNotExist = errors.New("file does not exist")

func symxStat(name string) (os.FileInfo, error) {
	if !symxDisk.exists {
		return nil, symxErrNotExist
	}
	return nil, nil
}
func symxIsNotExist(err error) bool { return err == symxErrNotExist }
func symxOpenFile(name string, flag int, perm os.FileMode) (*os.File, error) {
	if flag&os.O_TRUNC != 0 {
		symxDisk.state = [8]byte{}
	}
	symxDisk.exists = true
	return nil, nil
}
func symxRemove(name string) error               { symxDisk.exists = false; return nil }
func symxFileTruncate(f *os.File, n int64) error { return nil }
func symxFileFd(f *os.File) uintptr              { return 3 }
func symxFileClose(f *os.File) error             { return nil }
func symxMap(fd uintptr, prot gommap.ProtFlags, flags gommap.MapFlags) (gommap.MMap, error) {
	return gommap.MMap(symxDisk.state[:]), nil // a shared mapping: stores are the file content
}
func symxMMapSync(m gommap.MMap, flags gommap.SyncFlags) error { return nil }
func symxMMapUnmap(m gommap.MMap) error                        { return nil }

// ---- crash points: the process may die at any effect boundary inside Consume ----

type symxCrash struct{}

var symxEffect, symxCrashAt int
var symxInProgress int64

func symxCrashPoint() {
	if symxEffect == symxCrashAt {
		symxEffect++
		panic(symxCrash{})
	}
	symxEffect++
}

// an aligned 8-byte store into a shared mapping is assumed atomic and durable
func symxPutUint64(_ interface{}, b []byte, v uint64) {
	symxCrashPoint() // killed just before the offset is persisted
	_ = b[7]
	b[0], b[1], b[2], b[3] = byte(v>>56), byte(v>>48), byte(v>>40), byte(v>>32)
	b[4], b[5], b[6], b[7] = byte(v>>24), byte(v>>16), byte(v>>8), byte(v)
	symxInProgress = -1 // the message counts as being processed until its offset is durable
	symxCrashPoint()    // killed right after
}

// ---- commit log model: 500-entry segments, TruncateBefore drops whole segments ----

type symxCommitLog struct {
	first   uint64 // base offset of the oldest retained segment (multiple of 500)
	next    uint64 // offset of the next entry to be written
	removed uint64 // highest offset ever removed + 1
}

type symxCursor struct {
	log *symxCommitLog
	pos uint64
}

func (c *symxCursor) Read(p []byte) (int, error) { return 0, io.EOF }
func (c *symxCursor) Seek(offset int64, whence int) (int64, error) {
	switch whence {
	case io.SeekStart:
		c.pos = uint64(offset)
		if c.pos < c.log.first {
			c.pos = c.log.first
		}
	case io.SeekEnd:
		c.pos = c.log.next
	}
	return int64(c.pos), nil
}

func (l *symxCommitLog) Close() error { return nil }
func (l *symxCommitLog) WriteEntry(ts uint64, value []byte) (uint64, error) {
	o := l.next
	l.next++
	return o, nil
}
func (l *symxCommitLog) Delete() error                       { return nil }
func (l *symxCommitLog) Reader() commitlog.Cursor            { return &symxCursor{log: l} }
func (l *symxCommitLog) Offset() uint64                      { return l.next }
func (l *symxCommitLog) Datadir() string                     { return "d" }
func (l *symxCommitLog) LookupTimestamp(ts uint64) uint64    { return 0 }
func (l *symxCommitLog) Latest() uint64                      { return 0 }
func (l *symxCommitLog) GetStatistics() commitlog.Statistics { return commitlog.Statistics{} }
func (l *symxCommitLog) TruncateAfter(offset uint64) error   { return nil }
func (l *symxCommitLog) TruncateBefore(offset uint64) error {
	symxCrashPoint()
	// segments are [first, first+500), ...; drop every segment before the one containing offset
	seg := offset / 500 * 500
	if offset >= l.next { // beyond the last segment: the last one is kept
		seg = (l.next - 1) / 500 * 500
	}
	if seg > l.first {
		l.removed = seg
		l.first = seg
	}
	return nil
}

var symxRecord = mustEncode(&packet.Publish{Header: &packet.Header{}, Topic: []byte("t"), Payload: []byte("p")})

// symxStreamConsume stands for stream.consume: consecutive batches of at most MaxBatchSize
// records starting at FromOffset (clamped to the oldest retained entry); it returns when the
// end of the log is reached (as if the context had been cancelled while polling).
func symxStreamConsume(ctx context.Context, r io.ReadSeeker, opts stream.ConsumerOpts, processor stream.Processor) error {
	c := r.(*symxCursor)
	pos, _ := c.Seek(opts.FromOffset, io.SeekStart)
	at := uint64(pos)
	for at < c.log.next {
		b := stream.Batch{FirstOffset: at}
		for len(b.Records) < opts.MaxBatchSize && at < c.log.next {
			b.Records = append(b.Records, symxRecord)
			at++
		}
		if err := processor(ctx, b); err != nil {
			return err
		}
	}
	return nil
}

// symxIncarnation runs one process lifetime of the consumer; it returns the offsets handed over
// and whether the process was killed.
func symxIncarnation(l *symxCommitLog, crashAt int) (handed []uint64, inProgress int64, crashed bool) {
	s := &store{datadir: "d", log: l} // volatile state is rebuilt from scratch
	symxEffect, symxCrashAt = 0, crashAt
	symxInProgress = -1
	defer func() {
		symxCrashAt = -1
		inProgress = symxInProgress
		if r := recover(); r != nil {
			if _, ok := r.(symxCrash); !ok {
				panic(r)
			}
			crashed = true
		}
	}()
	s.Consume(context.Background(), "publish_distributor", func(o uint64, p *packet.Publish) error {
		symxInProgress = int64(o)
		symxCrashPoint() // killed while the scheduler is processing o
		handed = append(handed, o)
		return nil
	})
	return
}

// symxC15A: a log at an arbitrary position (oldest retained segment, stored consumer offset and
// number of pending entries are solver variables), a crash at a solver-chosen effect boundary,
// more appends, restart.
func symxC15A() {
	symxCrashAt = -1
	first := uint64(rt.Int("first_segment", 0, 5)) * 500
	fresh := rt.Bool("fresh_consumer")
	var stored uint64
	symxDisk = symxDiskT{}
	if fresh {
		rt.Assume(first == 0)
	} else {
		stored = first + uint64(rt.Int("stored_offset_in_log", 0, 2200))
		symxDisk.exists = true
		symxPutUint64(nil, symxDisk.state[:], stored)
	}
	pending := uint64(rt.Int("pending", 0, int64(rt.Param("entries", 3))))
	l := &symxCommitLog{first: first, next: stored + 1 + pending}
	if fresh {
		l.next = pending
	}
	firstPending := stored + 1
	if fresh {
		firstPending = 0
	}
	crashAt := int(rt.Int("crash_at", -1, int64(rt.Param("crash_max", 12))))
	h1, inProg, crashed := symxIncarnation(l, crashAt)
	l.next += uint64(rt.Int("appended_later", 0, 2))
	var hMid []uint64
	if rt.Param("crashes", 1) >= 2 {
		// a second life that is killed as well, at its own solver-chosen position
		var crashedMid bool
		var inProgMid int64
		hMid, inProgMid, crashedMid = symxIncarnation(l, int(rt.Int("crash_at_2", -1, int64(rt.Param("crash_max", 12)))))
		if crashedMid {
			crashed, inProg = true, inProgMid
		} else if len(hMid) > 0 {
			crashed, inProg = false, -1
		}
	}
	h2, _, crashed2 := symxIncarnation(l, -1)
	rt.Assert(!crashed2, "C15.restart_completes")
	for _, h := range [][]uint64{h1, hMid, h2} {
		for k := 1; k < len(h); k++ {
			rt.Assert(h[k] == h[k-1]+1, "C15.log_order_within_a_run")
		}
	}
	// at least once: every pending offset is handed over by some run
	count := func(o uint64) (n1, n2 int) {
		for _, x := range h1 {
			if x == o {
				n1++
			}
		}
		for _, x := range hMid {
			if x == o {
				n1++
			}
		}
		for _, x := range h2 {
			if x == o {
				n2++
			}
		}
		return
	}
	total := int(l.next - firstPending)
	for k := 0; k < total; k++ {
		n1, n2 := count(firstPending + uint64(k))
		rt.Assert(n1+n2 >= 1, "C15.every_message_handed_over_at_least_once")
	}
	// a restart replays at most the message that was being processed when the process stopped
	replayed := 0
	prev := h1
	if rt.Param("crashes", 1) >= 2 {
		prev = hMid // the last restart is measured against the life that preceded it
	}
	for _, o := range h2 {
		for _, x := range prev {
			if x == o {
				replayed++
			}
		}
	}
	if rt.Param("crashes", 1) < 2 && !fresh && len(h2) > 0 && h2[0] == stored && len(h1) == 0 {
		replayed++ // the entry at the stored offset was completed by an earlier life
	}
	allowed := 0
	if crashed && inProg >= 0 {
		allowed = 1
	}
	if rt.Param("check_replay_bound", 1) == 1 {
		kf := rt.Known("KF-C15-1") && replayed <= allowed+1
		rt.Assert(replayed <= allowed || kf, "C15.restart_replays_at_most_the_message_in_progress")
		rt.Report("KF-C15-1", replayed > allowed && replayed <= allowed+1)
	}
	// truncation never removes a message that has not been handed over
	rt.Assert(l.removed <= firstPending, "C15.truncation_only_behind_the_consumer")
	rt.Cover(crashed && len(h2) > 0, "C15.crash_then_resume")
	rt.Cover(l.removed > 0, "C15.truncation_happened")
}

// symxC15B: truncation arithmetic for an arbitrary consumer position: whatever
// maybeTruncate removes lies more than 300 entries behind the consumer, in whole segments.
func symxC15B() {
	cur := uint64(rt.Int("current_offset", 0, 1<<40))
	segs := uint64(rt.Int("first_segment", 0, 1<<30))
	first := segs * 500
	rt.Assume(first <= cur)
	l := &symxCommitLog{first: first, next: cur + 1 + uint64(rt.Int("ahead", 0, 1000))}
	s := &store{datadir: "d", log: l}
	symxCrashAt = -1
	s.maybeTruncate(cur)
	rt.Assert(l.first%500 == 0, "C15.truncation_drops_whole_segments")
	rt.Assert(l.first <= cur, "C15.truncation_never_reaches_the_consumer_position")
	rt.Assert(l.first == first || l.first+300 <= cur, "C15.at_least_300_entries_kept_behind_the_consumer")
	rt.Assert(l.first == first || (cur > 1500 && cur%1000 == 0), "C15.truncation_only_at_the_documented_positions")
	rt.Cover(l.first != first, "C15.truncated")
}
