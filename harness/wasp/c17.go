package wasp

import (
	"bytes"

	"github.com/vx-labs/mqtt-protocol/packet"
	rt "github.com/vx-labs/wasp/v4/zzsymxrt"
)

var symxTenantFilters = []string{"#", "+", "t", "+/t", "t/#", "n/t", "m/t"}
var symxTenantTopics = []string{"t", "n/t", "m/t", "t/u"}

func symxGenericMatch(f, t string) bool {
	fl, tl := bytes.Split([]byte(f), []byte("/")), bytes.Split([]byte(t), []byte("/"))
	for k, x := range fl {
		if string(x) == "#" {
			return true
		}
		if k >= len(tl) {
			return false
		}
		if string(x) != "+" && !bytes.Equal(x, tl[k]) {
			return false
		}
	}
	return len(fl) == len(tl)
}

// symxC17: tenants m and n (the mount point comes from the authenticated principal; the harness
// selects it through the user name). Solver-chosen filters and topic; a publish, a retained
// publish followed by a late subscriber, a will, and a CONNECT in n re-using a client identifier
// of m. Nothing crosses the tenant boundary, and delivered topics are the names publishers used.
func symxC17() {
	b := symxNewBroker(1, 1)
	p := b.start(nil)
	f := p.front(&symxAuth{mountPoint: "m", ids: []string{"am", "bn", "cm", "dn", "en"}})
	connect := func(clientID, tenant string, will []byte) *symxConn {
		c := symxNewConn()
		symxTick()
		rt.Assert(f.connect(c, symxConnectBytes(clientID, 30, tenant, will, []byte("bye"), 0, false)) == nil, "C17.connect_accepted")
		rt.Quiesce()
		return c
	}
	topic := symxTenantTopics[rt.Int("topic", 0, 3)]
	fm, fn := symxTenantFilters[rt.Int("filter_m", 0, 6)], symxTenantFilters[rt.Int("filter_n", 0, 6)]
	am := connect("a", "m", []byte(topic)) // publisher in m, with a will on the same topic
	bn := connect("b", "n", nil)           // watcher in n
	cm := connect("c", "m", nil)           // watcher in m
	bn.feed(symxSubscribeBytes(1, fn, 0))
	cm.feed(symxSubscribeBytes(1, fm, 0))
	rt.Quiesce()
	// expected number of PUBLISH packets per watcher so far; every delivered topic must be the
	// name its publisher used
	expM, expB, expD := 0, 0, 0
	check := func(c *symxConn, n int, label string) {
		got := symxPublishes(c.written())
		rt.Assert(len(got) == n, label)
		for _, g := range got {
			rt.Assert(string(g.Topic) == topic, "C17.delivered_topic_is_the_name_the_publisher_used")
		}
	}
	wantM, wantN := 0, 0
	if symxGenericMatch(fm, topic) {
		wantM = 1
	}
	if symxGenericMatch(fn, topic) {
		wantN = 1
	}
	// 1. a retained publish from tenant m (the client may set DUP on anything it sends)
	symxTick()
	pb := symxPublishBytes(topic, []byte("v"), 0, 0, true)
	if rt.Bool("dup_flag") {
		pb[0] |= 0x08
	}
	am.feed(pb)
	rt.Quiesce()
	expM += wantM
	check(cm, expM, "C17.same_tenant_receives_iff_filter_matches")
	check(bn, expB, "C17.other_tenant_never_receives_a_publish")
	// 2. a late subscriber in n asks for everything: no retained message of m may be replayed
	dn := connect("d", "n", nil)
	dn.feed(symxSubscribeBytes(2, "#", 0))
	rt.Quiesce()
	check(dn, expD, "C17.other_tenant_never_receives_retained_messages")
	// 3. a client of tenant n connects with the client identifier of m's watcher 'c'
	en := connect("c", "n", nil)
	symxTick()
	before := symxCount(cm.written(), packet.PINGRESP)
	cm.feed(symxPingReq())
	rt.Quiesce()
	kf := rt.Known("KF-C17-1")
	served := symxCount(cm.written(), packet.PINGRESP) == before+1 && b.local.Get("cm") != nil
	rt.Assert(served || kf, "C17.client_id_reuse_in_another_tenant_does_not_disturb_the_session")
	rt.Report("KF-C17-1", !served)
	// 3b. the two clients sharing the identifier 'c' run a QoS 2 handshake with the same packet
	// identifier at the same time, each inside its own tenant
	if served && rt.Bool("concurrent_qos2_handshakes") {
		symxTick()
		cm.feed(symxPublishBytes(topic, []byte("m2"), 2, 9, false))
		en.feed(symxPublishBytes(topic, []byte("n2"), 2, 9, false))
		rt.Quiesce()
		rt.Assert(symxCount(cm.written(), packet.PUBREC) == 1 && symxCount(en.written(), packet.PUBREC) == 1, "C17.handshakes_of_two_tenants_do_not_collide")
		symxTick()
		cm.feed(symxFrame(0x62, []byte{0, 9}))
		en.feed(symxFrame(0x62, []byte{0, 9}))
		rt.Quiesce()
		rt.Assert(symxCount(cm.written(), packet.PUBCOMP) == 1 && symxCount(en.written(), packet.PUBCOMP) == 1, "C17.both_handshakes_complete")
		rt.Assert(b.local.Get("cm") != nil && b.local.Get("en") != nil, "C17.both_sessions_survive_the_handshakes")
		expM += wantM // tenant m's message stays in m
		expB += wantN // tenant n's message stays in n
		expD++        // ... and reaches n's '#' subscriber
		check(cm, expM, "C17.qos2_message_delivered_inside_its_tenant_only")
		check(bn, expB, "C17.qos2_message_delivered_inside_its_tenant_only")
		check(dn, expD, "C17.qos2_message_delivered_inside_its_tenant_only")
	}
	// 4. the publisher dies uncleanly: its will stays inside tenant m
	symxTick()
	am.feedEOF()
	rt.Quiesce()
	if served {
		expM += wantM
		check(cm, expM, "C17.will_reaches_same_tenant_iff_filter_matches")
	}
	check(bn, expB, "C17.other_tenant_never_receives_a_will")
	check(dn, expD, "C17.other_tenant_never_receives_a_will")
	rt.Cover(wantM == 1 && symxGenericMatch(fn, topic), "C17.both_filters_would_match")
	b.cancel()
	rt.Quiesce()
}
