package sessions

import (
	"github.com/vx-labs/mqtt-protocol/packet"
	rt "github.com/vx-labs/wasp/v4/zzsymxrt"
)

func symxPar(a, b func()) {
	done := make(chan struct{}, 2)
	go func() { a(); done <- struct{}{} }()
	go func() { b(); done <- struct{}{} }()
	<-done
	<-done
}

// symxC20Session: the per-session filter list under concurrent use.
func symxC20Session() {
	s, err := NewSession("id", "m", "tcp", nil, &packet.Connect{Header: &packet.Header{}, ClientId: []byte("c"), KeepaliveTimer: 30})
	rt.Assert(err == nil, "C20.session.created")
	s.AddTopic([]byte("m/a"))
	switch rt.Int("pair", 0, 3) {
	case 3: // teardown walks the filter list while the client unsubscribes
		s.AddTopic([]byte("m/b"))
		n := 0
		symxPar(func() {
			for _, t := range s.GetTopics() {
				n += len(t)
			}
		}, func() { s.RemoveTopic([]byte("m/a")) })
		rt.Assert(n == 3 || n == 6, "C20.session.walk_sees_whole_filters")
	case 0:
		symxPar(func() { s.AddTopic([]byte("m/b")) }, func() { s.AddTopic([]byte("m/c")) })
		rt.Assert(len(s.GetTopics()) == 3, "C20.session.both_filters_recorded")
	case 1:
		var n int
		symxPar(func() { s.AddTopic([]byte("m/b")) }, func() { n = len(s.GetTopics()) })
		rt.Assert(n == 1 || n == 2, "C20.session.listing_consistent")
	case 2:
		symxPar(func() { s.AddTopic([]byte("m/b")) }, func() { s.RemoveTopic([]byte("m/a")) })
		ts := s.GetTopics()
		rt.Assert(len(ts) == 1 && string(ts[0]) == "m/b", "C20.session.add_and_remove_take_effect")
	}
}
