package wasp

import (
	"bytes"

	"github.com/vx-labs/mqtt-protocol/packet"
	rt "github.com/vx-labs/wasp/v4/zzsymxrt"
)

// symxC01C: from a log entry to the wire. The real writer loop resolves the recipients of a
// stored publish and writes to local sessions only, once per matching subscription, with the
// mount point trimmed and the payload intact.
func symxC01C() {
	b := symxNewBroker(1, 1)
	go b.writer.Run(b.ctx, b.log)
	// three sessions: s0, s1 connected here; s2 known (subscribed) but not in the local registry
	_, c0 := b.session("s0", "c0", "m", 30)
	_, c1 := b.session("s1", "c1", "m", 30)
	filters := [][]byte{[]byte("m/a"), []byte("m/+"), []byte("m/b")}
	// which filter each session holds is symbolic; a subscription hosted by another node ("far",
	// learned through gossip) and the one of the unregistered session s2 sit at solver-chosen
	// positions of the match list
	f0, f1, f2 := rt.Int("f0", 0, 2), rt.Int("f1", 0, 2), rt.Int("f2", 0, 2)
	farFirst, ghostFirst := rt.Bool("remote_subscription_first"), rt.Bool("unregistered_session_first")
	if farFirst {
		symxGossipSub(b, "far", 2, "m/+", 0, 5)
	}
	if ghostFirst {
		b.state.Subscriptions().Create("s2", filters[f2], 0)
	}
	b.state.Subscriptions().Create("s0", filters[f0], 0)
	b.state.Subscriptions().Create("s1", filters[f1], 0)
	if !ghostFirst {
		b.state.Subscriptions().Create("s2", filters[f2], 0)
	}
	if !farFirst {
		symxGossipSub(b, "far", 2, "m/+", 0, 5)
	}
	second := rt.Bool("s0_second_filter")
	if second {
		b.state.Subscriptions().Create("s0", []byte("m/#"), 0)
	}
	topic := []byte("m/a")
	if rt.Bool("topic_b") {
		topic = []byte("m/b")
	}
	payload := rt.Bytes("payload", 2)
	b.log.Append(&packet.Publish{Header: &packet.Header{}, Topic: topic, Payload: payload})
	b.writer.Schedule(b.ctx, 1)
	rt.Quiesce()
	match := func(f int64) bool { return f == 1 || (f == 0) == (topic[2] == 'a') }
	want0 := 0
	if match(f0) {
		want0++
	}
	if second {
		want0++
	}
	want1 := 0
	if match(f1) {
		want1++
	}
	p0, p1 := symxPublishes(c0.written()), symxPublishes(c1.written())
	rt.Assert(len(p0) == want0, "C01.wire.once_per_matching_subscription")
	rt.Assert(len(p1) == want1, "C01.wire.no_copy_without_matching_filter")
	for _, p := range append(p0, p1...) {
		rt.Assert(bytes.Equal(p.Topic, topic[2:]), "C01.wire.mount_point_trimmed")
		rt.Assert(bytes.Equal(p.Payload, payload), "C01.wire.payload_intact")
	}
	rt.Cover(want0 == 2, "C01.wire.two_matching_filters_one_session")
	b.cancel()
	rt.Quiesce()
}
