package wasp

import (
	"context"
	"errors"

	"github.com/golang/protobuf/proto"
	"github.com/vx-labs/cluster/membership"
	"github.com/vx-labs/mqtt-protocol/packet"
	"github.com/vx-labs/wasp/v4/wasp/api"
	rt "github.com/vx-labs/wasp/v4/zzsymxrt"
	"google.golang.org/grpc"
)

// The gRPC hop between nodes is replaced: the closure built by Distribute still runs, but the
// generated client stub's ScheduleMessage is redirected to the destination node's real
// mqttServer.ScheduleMessage (or to a failure when the harness marks the node unreachable).
//
//symx:stub (*github.com/vx-labs/wasp/v4/wasp/api.mQTTClient).ScheduleMessage = github.com/vx-labs/wasp/v4/wasp.symxRemoteSchedule

var symxNet struct {
	dest    uint64
	brokers map[uint64]*symxBroker
	fail    map[uint64]bool
	// how a failing node fails (the contract of cluster/membership's pool.Call): 0 the remote
	// call itself returns an error; 1 the node is not (or no longer) in the membership pool,
	// ErrPeerNotFound without any call; 2 disabled by health checks, ErrPeerDisabled
	kind  map[uint64]int
	calls map[uint64]int
}

type symxTransport struct{}

func (symxTransport) Call(id uint64, f func(*grpc.ClientConn) error) error {
	symxNet.dest = id
	if symxNet.fail[id] && symxNet.kind[id] == 1 {
		symxNet.calls[id]++
		return membership.ErrPeerNotFound
	}
	if symxNet.fail[id] && symxNet.kind[id] == 2 {
		symxNet.calls[id]++
		return membership.ErrPeerDisabled
	}
	return f(nil)
}

// symxFailureKind lets the solver choose how an unreachable node fails.
func symxFailureKind(id uint64) {
	if symxNet.fail[id] {
		symxNet.kind[id] = int(rt.Int("failure_kind", 0, 2))
	}
}

func symxRemoteSchedule(c interface{}, ctx context.Context, in *api.ScheduleMessageRequest, opts ...grpc.CallOption) (*api.ScheduleMessageResponse, error) {
	d := symxNet.dest
	symxNet.calls[d]++
	if symxNet.fail[d] {
		return nil, errors.New("node unreachable")
	}
	b := symxNet.brokers[d]
	return NewMQTTServer(b.state, b.local, b.log, nil, nil).ScheduleMessage(ctx, in)
}

func symxResetNet() {
	symxNet.brokers = map[uint64]*symxBroker{}
	symxNet.fail = map[uint64]bool{}
	symxNet.kind = map[uint64]int{}
	// the engine does not run the initialiser of cluster/membership (a library package that is
	// never called into here), so its exported error values are set up the way its init does
	if membership.ErrPeerNotFound == nil {
		membership.ErrPeerNotFound = errors.New("peer not found")
		membership.ErrPeerDisabled = errors.New("peer disabled by healthchecks")
	}
	symxNet.calls = map[uint64]int{}
}

// symxGossipSub makes `on` learn a subscription hosted by `peer` (as if merged from gossip).
func symxGossipSub(on *symxBroker, session string, peer uint64, pattern string, qos int32, ts int64) {
	buf, err := proto.Marshal(&api.StateBroadcastEvent{Subscriptions: []*api.Subscription{{
		SessionID: session, Peer: peer, Pattern: []byte(pattern), QoS: qos, LastAdded: ts}}})
	if err != nil {
		panic(err)
	}
	on.state.Distributor().NotifyMsg(buf)
}

var symxC14Filters = []string{"m/a", "m/+", "m/b"}

// symxC14: three nodes; up to three subscriptions with solver-chosen filter and hosting node;
// a QoS 1 publish on node 1; every destination (local log included) may fail.
func symxC14() {
	symxResetNet()
	var bs [4]*symxBroker
	var ps [4]*symxPipeline
	for id := uint64(1); id <= 3; id++ {
		bs[id] = symxNewBroker(id, 1)
		symxNet.brokers[id] = bs[id]
	}
	for id := uint64(1); id <= 3; id++ {
		ps[id] = bs[id].start(symxTransport{})
	}
	nsubs := rt.Param("subs", 2)
	sessIDs := []string{"x0", "x1", "x2"}
	var host [3]uint64
	var filt [3]int
	var conns [3]*symxConn
	for k := 0; k < nsubs; k++ {
		host[k] = uint64(rt.Int("host", 1, 3))
		filt[k] = int(rt.Int("filter", 0, 2))
		_, conns[k] = bs[host[k]].session(sessIDs[k], "c"+sessIDs[k], "m", 30)
		// every node knows every subscription
		for id := uint64(1); id <= 3; id++ {
			symxGossipSub(bs[id], sessIDs[k], host[k], symxC14Filters[filt[k]], 0, 100+int64(k))
		}
	}
	for id := uint64(2); id <= 3; id++ {
		symxNet.fail[id] = rt.Bool("unreachable")
		symxFailureKind(id)
	}
	bs[1].log.failAppend = rt.Bool("local_log_fails")
	pubS, pubC := bs[1].session("pub", "cpub", "m", 30)
	topic := "a"
	if rt.Bool("topic_b") {
		topic = "b"
	}
	err := ps[1].proc.Process(bs[1].ctx, pubS, pubC, &packet.Publish{Header: &packet.Header{Qos: 1}, MessageId: 5, Topic: []byte(topic), Payload: []byte("hi")})
	rt.Assert(err == nil, "C14.publish_accepted_for_processing")
	rt.Quiesce()
	matches := func(k int) bool {
		f := symxC14Filters[filt[k]]
		return f == "m/+" || f == "m/"+topic
	}
	var wantNode [4]bool
	for k := 0; k < nsubs; k++ {
		if matches(k) {
			wantNode[host[k]] = true
		}
	}
	anyFailed := false
	for id := uint64(1); id <= 3; id++ {
		attempts := symxNet.calls[id]
		if id == 1 {
			attempts = bs[1].log.appends
		}
		failed := symxNet.fail[id] || (id == 1 && bs[1].log.failAppend)
		if wantNode[id] {
			rt.Assert(attempts == 1, "C14.each_hosting_node_written_exactly_once")
			if failed {
				anyFailed = true
			} else {
				rt.Assert(len(bs[id].log.entries) == 1, "C14.message_in_hosting_nodes_log")
			}
		} else {
			rt.Assert(attempts == 0 && len(bs[id].log.entries) == 0, "C14.no_write_to_nodes_without_matching_subscriber")
		}
	}
	acks := 0
	for _, p := range pubC.written() {
		if a, ok := p.(*packet.PubAck); ok && a.MessageId == 5 {
			acks++
		}
	}
	if anyFailed {
		rt.Assert(acks == 0, "C14.failed_destination_withholds_the_acknowledgement")
	} else {
		rt.Assert(acks == 1, "C14.acknowledged_once_when_all_destinations_accepted")
	}
	// delivery on each hosting node: only its own local matching sessions, once
	for k := 0; k < nsubs; k++ {
		got := len(symxPublishes(conns[k].written()))
		failed := symxNet.fail[host[k]] || (host[k] == 1 && bs[1].log.failAppend)
		if matches(k) && !failed {
			rt.Assert(got == 1, "C14.matching_local_session_receives_once")
		} else {
			rt.Assert(got == 0, "C14.nothing_written_to_other_sessions")
		}
	}
	rt.Cover(anyFailed && wantNode[2] && wantNode[3] && symxNet.fail[2] != symxNet.fail[3], "C14.one_remote_fails_the_other_succeeds")
	rt.Cover(wantNode[1] && wantNode[2], "C14.local_and_remote_destination")
	for id := uint64(1); id <= 3; id++ {
		bs[id].cancel()
	}
	rt.Quiesce()
}
