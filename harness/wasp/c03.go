package wasp

import (
	"time"

	"github.com/vx-labs/mqtt-protocol/packet"
	"github.com/vx-labs/wasp/v4/wasp/sessions"
	rt "github.com/vx-labs/wasp/v4/zzsymxrt"
)

var symxLastQos int32

type symxFlight struct {
	sess  int
	qos   int32
	id    int32
	phase int // 0: PUBLISH unacknowledged, 1: PUBREL unacknowledged (QoS 2), 2: done
	pubs  int // copies of PUBLISH seen so far
	rels  int // copies of PUBREL seen so far
}

func symxCountOut(c *symxConn, id int32) (pubs, rels int) {
	for _, p := range c.written() {
		switch x := p.(type) {
		case *packet.Publish:
			if x.MessageId == id {
				pubs++
				symxLastQos = x.Header.Qos
			}
		case *packet.PubRel:
			if x.MessageId == id {
				rels++
			}
		}
	}
	return
}

func symxSweepNow(b *symxBroker) {
	if rt.Native() {
		// natively the clock is the real one: sweep at "now + 4 s" instead of moving the clock
		b.acks.Expire(time.Now().Add(4 * time.Second))
		rt.Quiesce()
		return
	}
	symxClockMs += 4000 // every armed deadline (3 s) is exceeded by at least one second
	symxTick()
	b.expire(1600000000+symxClockMs/1000, (symxClockMs%1000)*1000000)
	rt.Quiesce()
}

// symxSweepEarly: the writer's one-second ticker fires 2.8 s after the packets were sent. The
// timeout list files deadlines under their rounded second, so with the clock 300 ms into its
// second this sweep falls inside the deadline's bucket but before the exact deadline.
func symxSweepEarly(b *symxBroker) {
	if rt.Native() {
		b.acks.Expire(time.Now().Add(2800 * time.Millisecond))
		rt.Quiesce()
		return
	}
	symxClockMs += 2800
	symxTick()
	b.expire(1600000000+symxClockMs/1000, (symxClockMs%1000)*1000000)
	rt.Quiesce()
}

// symxC03: outbound QoS 1/2 deliveries under a symbolic client script: acknowledge, answer with
// the wrong packet type or an unknown identifier, stay silent across a deadline, or end the
// session. Unacknowledged packets are re-sent with the same identifier at every expired
// deadline; after completion or session end nothing more is sent and the identifier is free.
func symxC03() {
	n := rt.Param("messages", 1)
	steps := rt.Param("steps", 2)
	nsess := rt.Param("sessions", 1)
	early := rt.Param("early", 0) == 1
	if early && !rt.Native() {
		symxClockMs += 300 // deadlines fall 300 ms into their second
	}
	b := symxNewBroker(1, 1)
	p := b.start(nil)
	names := []string{"s", "t"}
	var ss [2]*sessions.Session
	var cs [2]*symxConn
	for k := 0; k < nsess; k++ {
		ss[k], cs[k] = b.session(names[k], "c"+names[k], "m", 30)
	}
	fanout := nsess == 2 && rt.Param("fanout", 0) == 1
	fl := make([]symxFlight, n)
	for k := 0; k < n; k++ {
		symxTick()
		if fanout && k+1 < n {
			// one message, two recipients granted solver-chosen (possibly different) QoS
			fl[k].sess, fl[k+1].sess = 0, 1
			fl[k].qos, fl[k+1].qos = int32(rt.Int("qos", 1, 2)), int32(rt.Int("qos", 1, 2))
			b.writer.Send(b.ctx, []string{names[0], names[1]}, []int32{fl[k].qos, fl[k+1].qos}, &packet.Publish{Header: &packet.Header{}, Topic: []byte("m/t"), Payload: []byte{byte('a' + k)}})
			rt.Quiesce()
			symxPoolRetryWait(2)
			for j := k; j <= k+1; j++ {
				var mine *packet.Publish
				for _, pk := range symxPublishes(cs[fl[j].sess].written()) {
					if len(pk.Payload) == 1 && pk.Payload[0] == byte('a'+k) {
						mine = pk
					}
				}
				rt.Assert(mine != nil, "C03.first_copy_written")
				rt.Assert(mine.Header.Qos == fl[j].qos, "C03.copy_carries_the_granted_qos")
				fl[j].id = mine.MessageId
				fl[j].pubs = 1
			}
			rt.Assert(fl[k].id != fl[k+1].id, "C03.identifiers_in_flight_are_distinct")
			k++
			continue
		}
		fl[k].sess = k % nsess
		fl[k].qos = int32(rt.Int("qos", 1, 2))
		b.writer.Send(b.ctx, []string{names[fl[k].sess]}, []int32{fl[k].qos}, &packet.Publish{Header: &packet.Header{}, Topic: []byte("m/t"), Payload: []byte{byte('a' + k)}})
		rt.Quiesce()
		symxPoolRetryWait(2) // the writer waits 100 ms when the pool hands out identifier 0
		var mine *packet.Publish
		for _, pk := range symxPublishes(cs[fl[k].sess].written()) {
			if len(pk.Payload) == 1 && pk.Payload[0] == byte('a'+k) {
				mine = pk
			}
		}
		rt.Assert(mine != nil, "C03.first_copy_written")
		fl[k].id = mine.MessageId
		rt.Assert(fl[k].id >= 1 && fl[k].id <= 65535, "C03.identifier_in_range")
		for j := 0; j < k; j++ {
			rt.Assert(fl[j].id != fl[k].id, "C03.identifiers_in_flight_are_distinct")
		}
		fl[k].pubs = 1
	}
	registeredS := [2]bool{true, true}
	for step := 0; step < steps; step++ {
		m := int(rt.Int("target", 0, int64(n-1)))
		maxAction := int64(4)
		if early {
			maxAction = 5
		}
		action := rt.Int("action", 0, maxAction)
		s, c := ss[fl[m].sess], cs[fl[m].sess]
		registered := registeredS[fl[m].sess]
		symxTick()
		switch action {
		case 0: // the acknowledgement the broker is waiting for
			switch {
			case fl[m].phase == 0 && fl[m].qos == 1:
				p.proc.Process(b.ctx, s, c, &packet.PubAck{Header: &packet.Header{}, MessageId: fl[m].id})
				fl[m].phase = 2
			case fl[m].phase == 0 && fl[m].qos == 2:
				p.proc.Process(b.ctx, s, c, &packet.PubRec{Header: &packet.Header{}, MessageId: fl[m].id})
				if registered {
					fl[m].phase = 1
					fl[m].rels++ // PUBREL is sent at once
				} else {
					fl[m].phase = 2
				}
			case fl[m].phase == 1:
				p.proc.Process(b.ctx, s, c, &packet.PubComp{Header: &packet.Header{}, MessageId: fl[m].id})
				fl[m].phase = 2
			default: // already complete: a stray acknowledgement changes nothing
				p.proc.Process(b.ctx, s, c, &packet.PubAck{Header: &packet.Header{}, MessageId: fl[m].id})
			}
		case 1: // wrong packet type for the current phase
			if fl[m].phase == 1 || (fl[m].phase == 0 && fl[m].qos == 1) {
				p.proc.Process(b.ctx, s, c, &packet.PubRec{Header: &packet.Header{}, MessageId: fl[m].id})
			} else {
				p.proc.Process(b.ctx, s, c, &packet.PubComp{Header: &packet.Header{}, MessageId: fl[m].id})
			}
		case 2: // unknown identifier
			p.proc.Process(b.ctx, s, c, &packet.PubAck{Header: &packet.Header{}, MessageId: 4242})
		case 3: // silence across the deadline: the sweep re-sends every unacknowledged packet once
			symxSweepNow(b)
			for k := range fl {
				if !registeredS[fl[k].sess] {
					if fl[k].phase != 2 {
						fl[k].phase = 2 // released by the sweep
					}
					continue
				}
				switch fl[k].phase {
				case 0:
					fl[k].pubs++
				case 1:
					fl[k].rels++
				}
			}
		case 4: // the session ends
			b.local.Delete(names[fl[m].sess])
			registeredS[fl[m].sess] = false
		case 5: // a ticker sweep inside the deadline's second but before the exact deadline:
			// "honoured to the second" lets it count as the expiry or not, but whatever it
			// does, the delivery must still be retransmitted at the next passed deadline
			symxSweepEarly(b)
			for k := range fl {
				if !registeredS[fl[k].sess] || fl[k].phase == 2 {
					continue
				}
				pubs, rels := symxCountOut(cs[fl[k].sess], fl[k].id)
				if fl[k].phase == 0 {
					rt.Assert(pubs == fl[k].pubs || pubs == fl[k].pubs+1, "C03.early_sweep_resends_at_most_once")
					fl[k].pubs = pubs
				} else {
					rt.Assert(rels == fl[k].rels || rels == fl[k].rels+1, "C03.early_sweep_resends_at_most_once")
					fl[k].rels = rels
				}
			}
		}
		rt.Quiesce()
		for k := range fl {
			pubs, rels := symxCountOut(cs[fl[k].sess], fl[k].id)
			rt.Assert(pubs == fl[k].pubs, "C03.publish_resent_exactly_once_per_expired_deadline_with_same_id")
			rt.Assert(pubs == 0 || symxLastQos == fl[k].qos, "C03.retransmission_keeps_the_granted_qos")
			rt.Assert(rels == fl[k].rels, "C03.pubrel_resent_exactly_once_per_expired_deadline_with_same_id")
		}
	}
	// completed or abandoned deliveries have released their identifier; pending ones still hold it
	if !registeredS[0] || !registeredS[1] {
		symxSweepNow(b)
	}
	pool := b.writer.midPool.(*simpleMidPool)
	for k := range fl {
		done := fl[k].phase == 2 || !registeredS[fl[k].sess]
		rt.Assert(symxFree(pool.intervals, fl[k].id) == done, "C03.identifier_free_iff_delivery_complete")
	}
	rt.Cover(fl[0].phase == 2 && registeredS[0], "C03.completed_while_connected")
	rt.Cover(fl[0].pubs >= 2, "C03.publish_retransmitted")
	if steps >= 3 {
		rt.Cover(fl[0].rels >= 2, "C03.pubrel_retransmitted")
	}
	b.cancel()
	rt.Quiesce()
}
