package auth

import (
	"context"
	"encoding/csv"
	"io/ioutil"
	"os"
	"strings"

	rt "github.com/vx-labs/wasp/v4/zzsymxrt"
)

// Under the engine the credential file is not read from disk: os.Open and csv ReadAll are
// redirected to the two functions below, which hand FileHandler the harness' records.
// Natively a real temporary file is written and the real os/csv code runs.
//
//symx:stub os.Open = github.com/vx-labs/wasp/v4/wasp/auth.symxOpen
//symx:stub (*encoding/csv.Reader).ReadAll = github.com/vx-labs/wasp/v4/wasp/auth.symxReadAll

var symxRecords [][]string

func symxOpen(name string) (*os.File, error) { return nil, nil }

func symxReadAll(r *csv.Reader) ([][]string, error) { return symxRecords, nil }

func symxLoad(records [][]string) (AuthenticationHandler, error) {
	if rt.Native() {
		var sb strings.Builder
		for _, r := range records {
			sb.WriteString(strings.Join(r, ":") + "\n")
		}
		f, err := ioutil.TempFile("", "symxcreds")
		if err != nil {
			panic(err)
		}
		f.WriteString(sb.String())
		f.Close()
		defer os.Remove(f.Name())
		return FileHandler(f.Name())
	}
	symxRecords = records
	return FileHandler("creds")
}

func symxSafely(f func()) (panicked bool) {
	defer func() {
		if r := recover(); r != nil {
			panicked = true
		}
	}()
	f()
	return false
}

func symxLetter(name string, lo, hi byte) string {
	c := rt.Byte(name)
	rt.Assume(c >= lo && c <= hi)
	return string([]byte{c})
}

// symxC16File: a credential file of n entries (2- or 3-field lines, solver-chosen user names,
// passwords and order) and an arbitrary candidate: accepted iff an entry has that user name and
// password; the principal's mount point is the entry's third field or the default one.
func symxC16File() {
	n := rt.Param("entries", 3)
	users := make([]string, n)
	pws := make([]string, n)
	mps := make([]string, n)
	records := make([][]string, n)
	for k := 0; k < n; k++ {
		users[k] = symxLetter("user", 'a', byte('a'+rt.Param("alphabet", 5)-1))
		for j := 0; j < k; j++ {
			rt.Assume(users[j] != users[k])
		}
		pws[k] = symxLetter("pw", 'p', 'q')
		if rt.Bool("three_fields") {
			if rt.Param("empty_mp", 0) == 1 && rt.Bool("mount_point_field_left_empty") {
				// "user:hash:" - a third field is there but names no mount point: "If mountpoint
				// is empty, the default mountpoint will be used" (FileHandler's contract)
				mps[k] = DefaultMountPoint
				records[k] = []string{users[k], fingerprintString(pws[k]), ""}
			} else {
				mps[k] = symxLetter("mp", 'm', 'n')
				records[k] = []string{users[k], fingerprintString(pws[k]), mps[k]}
			}
		} else {
			mps[k] = DefaultMountPoint
			records[k] = []string{users[k], fingerprintString(pws[k])}
		}
	}
	var h AuthenticationHandler
	var err error
	panicked := symxSafely(func() { h, err = symxLoad(records) })
	rt.Assert(!panicked, "C16.file.loading_never_panics")
	rt.Assert(err == nil && h != nil, "C16.file.loads")
	// candidate: user name from the same alphabet (present or absent) or empty; password p, q or empty
	var cu, cp []byte
	if !rt.Bool("empty_user") {
		cu = []byte(symxLetter("cand_user", 'a', byte('a'+rt.Param("alphabet", 5))))
	}
	if !rt.Bool("empty_pw") {
		cp = []byte(symxLetter("cand_pw", 'p', 'q'))
	}
	var pr Principal
	panicked = symxSafely(func() {
		pr, err = h.Authenticate(context.Background(), ApplicationContext{ClientID: []byte("c"), Username: cu, Password: cp}, TransportContext{})
	})
	rt.Assert(!panicked, "C16.file.authenticate_never_panics")
	want, wantMP := false, ""
	for k := 0; k < n; k++ {
		if users[k] == string(cu) && pws[k] == string(cp) {
			want, wantMP = true, mps[k]
		}
	}
	if want {
		rt.Assert(err == nil, "C16.file.matching_credentials_admitted")
		rt.Assert(pr.MountPoint == wantMP, "C16.file.mount_point_of_the_entry")
		rt.Assert(pr.ID != "", "C16.file.principal_has_an_id")
	} else {
		rt.Assert(err != nil, "C16.file.non_matching_credentials_refused")
	}
	if n >= 3 {
		rt.Cover(want, "C16.file.admitted_with_three_or_more_entries")
	}
	if rt.Param("empty_mp", 0) == 1 {
		rt.Cover(want && wantMP == DefaultMountPoint, "C16.file.admitted_into_the_default_mount_point")
	}
}

// symxC16Static: the static store admits exactly the configured pair, in the default mount point.
func symxC16Static() {
	// the configured pair: each part may be empty as well
	u, p := "", ""
	if !rt.Bool("configured_user_empty") {
		u = symxLetter("user", 'a', 'b')
	}
	if !rt.Bool("configured_pw_empty") {
		p = symxLetter("pw", 'p', 'q')
	}
	h, err := StaticHandler(u, p)
	rt.Assert(err == nil, "C16.static.created")
	var cu, cp []byte
	if !rt.Bool("empty_user") {
		cu = []byte(symxLetter("cand_user", 'a', 'b'))
	}
	if !rt.Bool("empty_pw") {
		cp = []byte(symxLetter("cand_pw", 'p', 'q'))
	}
	pr, err := h.Authenticate(context.Background(), ApplicationContext{Username: cu, Password: cp}, TransportContext{})
	if string(cu) == u && string(cp) == p {
		rt.Assert(err == nil, "C16.static.matching_pair_admitted")
		rt.Assert(pr.MountPoint == DefaultMountPoint, "C16.static.default_mount_point")
	} else {
		rt.Assert(err != nil, "C16.static.anything_else_refused")
	}
	rt.Cover(err == nil, "C16.static.admitted")
}
