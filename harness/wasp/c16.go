package wasp

import (
	"github.com/vx-labs/mqtt-protocol/packet"
	rt "github.com/vx-labs/wasp/v4/zzsymxrt"
)

// symxC16C: a CONNECT whose credentials are refused gets a refusal CONNACK and leaves nothing
// behind: no session record, no registry entry, no subscription, and no will later on.
func symxC16C() {
	b := symxNewBroker(1, 1)
	p := b.start(nil)
	a := &symxAuth{mountPoint: "m", ids: []string{"sid1", "sid2"}}
	f := p.front(a)
	// a watcher that would see a will on the refused client's will topic
	wS, wC := b.session("watch", "cw", "m", 30)
	p.proc.Process(b.ctx, wS, wC, &packet.Subscribe{Header: &packet.Header{}, MessageId: 1, Topic: [][]byte{[]byte("#")}, Qos: []int32{0}})
	a.fail = rt.Bool("refused")
	c := symxNewConn()
	var wt, wp []byte
	if rt.Bool("has_will") {
		wt, wp = []byte("w"), []byte("bye")
	}
	err := f.connect(c, symxConnectBytes("cid", 30, "", wt, wp, 0, false))
	rt.Quiesce()
	codes := symxConnAcks(c.written())
	rt.Assert(len(codes) == 1, "C16.connect.exactly_one_connack")
	if a.fail {
		rt.Assert(len(codes) == 1 && codes[0] == packet.CONNACK_REFUSED_BAD_USERNAME_OR_PASSWORD, "C16.connect.refusal_code")
		rt.Assert(len(b.state.SessionMetadatas().All()) == 0, "C16.connect.refused_creates_no_session_record")
		rt.Assert(len(b.local.ListSessions()) == 1, "C16.connect.refused_creates_no_registry_entry")
		// connection loss afterwards must not publish a will
		c.feedEOF()
		rt.Quiesce()
		rt.Assert(len(symxPublishes(wC.written())) == 0, "C16.connect.refused_leaves_no_will")
		rt.Assert(len(b.state.Subscriptions().All()) == 1, "C16.connect.refused_creates_no_subscription")
	} else {
		rt.Assert(err == nil && codes[0] == packet.CONNACK_CONNECTION_ACCEPTED, "C16.connect.accepted")
		rt.Assert(len(b.state.SessionMetadatas().All()) == 1, "C16.connect.accepted_creates_session_record")
	}
	rt.Cover(a.fail && len(wt) > 0, "C16.connect.refused_with_will")
	b.cancel()
	c.Close()
	rt.Quiesce()
}
