package wasp

import (
	"time"

	"github.com/vx-labs/mqtt-protocol/packet"
	rt "github.com/vx-labs/wasp/v4/zzsymxrt"
)

func (c *symxConn) lastDeadline() (time.Time, bool) {
	c.mu.Lock()
	defer c.mu.Unlock()
	if len(c.deadlines) == 0 {
		return time.Time{}, false
	}
	return c.deadlines[len(c.deadlines)-1], true
}

func (c *symxConn) isClosed() bool {
	c.mu.Lock()
	defer c.mu.Unlock()
	return c.closed
}

// symxC11A: keep-alive. A client with a solver-chosen keep-alive k that sends a packet at least
// every k seconds is never timed out: at every point where the broker waits for it, the read
// deadline in force is at least k seconds after the client's last packet - right after CONNECT
// included. (The fake connection records every deadline the broker arms.)
func symxC11A() {
	b := symxNewBroker(1, 1)
	p := b.start(nil)
	f := p.front(&symxAuth{mountPoint: "m", ids: []string{"sid"}})
	k := rt.Int("keepalive", 1, 65535)
	c := symxNewConn()
	sec0 := int64(1600000000) + symxClockMs/1000
	if rt.Native() {
		sec0 = time.Now().Unix() // natively the clock is the real one
	}
	bytes := symxConnectBytes("cid", 0, "", nil, nil, 0, false)
	// patch the keep-alive field (bytes 10,11 of the packet) with the symbolic value
	bytes[10], bytes[11] = byte(k>>8), byte(k)
	err := f.connect(c, bytes)
	rt.Assert(err == nil, "C11.connect_accepted")
	rt.Quiesce()
	last := sec0
	d, ok := c.lastDeadline()
	rt.Assert(ok, "C11.a_deadline_is_armed")
	rt.Assert(d.Unix()-last >= k, "C11.deadline_after_connect_covers_the_keepalive")
	idles := rt.Param("idles", 2)
	for step := 0; step < idles; step++ {
		// the client idles for up to k seconds, then pings
		idle := rt.Int("idle", 0, 65535)
		rt.Assume(idle <= k)
		last = last + idle
		rt.SetNow(last, 0)
		if rt.Native() {
			last = time.Now().Unix() // the real clock cannot be moved: the idle period is skipped natively
		}
		dl, _ := c.lastDeadline()
		rt.Assert(dl.Unix() >= last, "C11.no_timeout_while_within_keepalive")
		c.feed(symxPingReq())
		rt.Quiesce()
		rt.Assert(b.local.Get("sid") != nil, "C11.session_still_registered")
		rt.Assert(symxCount(c.written(), packet.PINGRESP) == step+1, "C11.ping_answered")
		dl, _ = c.lastDeadline()
		rt.Assert(dl.Unix()-last >= k, "C11.deadline_rearmed_after_every_packet")
	}
	// the dual: silence beyond twice the keep-alive ends the session (the transport reports a timeout)
	c.timeout()
	rt.Quiesce()
	rt.Assert(b.local.Get("sid") == nil, "C11.silent_session_ends")
	rt.Cover(k > 3, "C11.keepalive_longer_than_connect_timeout")
	b.cancel()
	rt.Quiesce()
}

// symxC11B: teardown. A session with up to two subscriptions ends for a solver-chosen cause;
// afterwards its connection is closed, it is gone from the registry, no node lists its record
// or subscriptions (a second node receives the broadcasts), and later publishes write nothing to it.
func symxC11B() {
	b := symxNewBroker(1, 1)
	p := b.start(nil)
	b2 := symxNewBroker(2, 1)
	f := p.front(&symxAuth{mountPoint: "m", ids: []string{"sid", "sid2"}})
	c := symxNewConn()
	if rt.Bool("connack_write_fails") {
		// the connection breaks while the broker answers the CONNECT
		c.failWrite = true
		f.connect(c, symxConnectBytes("cid", 30, "", nil, nil, 0, false))
		rt.Quiesce()
		payloads := rt.Drain(b.bq)
		for _, payload := range payloads {
			b2.state.Distributor().NotifyMsg(payload)
		}
		rt.Assert(b.local.Get("sid") == nil, "C11.removed_from_registry")
		rt.Assert(c.isClosed(), "C11.connection_closed")
		rt.Assert(len(b.state.SessionMetadatas().All()) == 0 && len(b2.state.SessionMetadatas().All()) == 0, "C11.session_record_gone_everywhere")
		b3 := symxNewBroker(3, 1)
		symxGossip(payloads, b, b3)
		rt.Assert(len(b3.state.SessionMetadatas().All()) == 0, "C11.session_record_gone_on_a_peer_hearing_the_gossip_late")
		b3.cancel()
		b.cancel()
		b2.cancel()
		rt.Quiesce()
		return
	}
	err := f.connect(c, symxConnectBytes("cid", 30, "", nil, nil, 0, false))
	rt.Assert(err == nil, "C11.connect_accepted")
	rt.Quiesce()
	nf := int(rt.Int("filters", 0, 2))
	for k := 0; k < nf; k++ {
		symxTick()
		c.feed(symxSubscribeBytes(uint16(k+1), []string{"a", "b/#"}[k], 0))
		rt.Quiesce()
	}
	rt.Assert(len(b.state.Subscriptions().All()) == nf, "C11.subscriptions_recorded")
	var heard [][]byte
	deliver := func() {
		for _, payload := range rt.Drain(b.bq) {
			heard = append(heard, payload)
			b2.state.Distributor().NotifyMsg(payload)
		}
	}
	deliver()
	rt.Assert(len(b2.state.SessionMetadatas().All()) == 1 && len(b2.state.Subscriptions().All()) == nf, "C11.peer_sees_the_session")
	symxTick()
	cause := rt.Int("cause", 0, 6)
	var cNew *symxConn
	switch cause {
	case 0:
		c.feed(symxDisconnect())
	case 1:
		c.feedEOF() // connection lost
	case 2:
		c.timeout() // keep-alive expired
	case 3:
		c.feed(symxConnectBytes("cid", 30, "", nil, nil, 0, false)) // protocol violation: second CONNECT
	case 4:
		f.mgr.DisconnectClients(b.ctx)
		c.feedEOF()
	case 6: // the connection breaks while the broker answers a SUBSCRIBE
		c.mu.Lock()
		c.failWrite = true
		c.mu.Unlock()
		c.feed(symxSubscribeBytes(7, "z", 0))
	case 5: // displaced by a newer session of the same client; noticed at the next keep-alive exchange
		cNew = symxNewConn()
		rt.Assert(f.connect(cNew, symxConnectBytes("cid", 30, "", nil, nil, 0, false)) == nil, "C11.second_connect_accepted")
		rt.Quiesce()
		symxTick()
		c.feed(symxPingReq())
	}
	rt.Quiesce()
	deliver()
	if cause == 5 {
		// the displacing session is a different session: end it cleanly so that only traces of the first one could remain
		cNew.feed(symxDisconnect())
		rt.Quiesce()
		deliver()
	}
	rt.Assert(b.local.Get("sid") == nil, "C11.removed_from_registry")
	rt.Assert(c.isClosed(), "C11.connection_closed")
	rt.Assert(len(b.state.SessionMetadatas().All()) == 0, "C11.session_record_gone_locally")
	rt.Assert(len(b.state.Subscriptions().All()) == 0, "C11.subscriptions_gone_locally")
	rt.Assert(len(b2.state.SessionMetadatas().All()) == 0, "C11.session_record_gone_on_peer")
	rt.Assert(len(b2.state.Subscriptions().All()) == 0, "C11.subscriptions_gone_on_peer")
	// a third node hears the whole gossip only now: out of order, or in part and then repaired
	// by a push/pull - the ended session must leave no trace there either
	b3 := symxNewBroker(3, 1)
	symxGossip(heard, b, b3)
	rt.Assert(len(b3.state.SessionMetadatas().All()) == 0, "C11.session_record_gone_on_a_peer_hearing_the_gossip_late")
	rt.Assert(len(b3.state.Subscriptions().All()) == 0, "C11.subscriptions_gone_on_a_peer_hearing_the_gossip_late")
	b3.cancel()
	// nothing published afterwards is written to it
	written := len(c.out)
	pubS, pubC := b.session("pub", "cp", "m", 30)
	symxTick()
	p.proc.Process(b.ctx, pubS, pubC, &packet.Publish{Header: &packet.Header{}, Topic: []byte("a"), Payload: []byte("x")})
	rt.Quiesce()
	rt.Assert(len(c.out) == written, "C11.nothing_written_after_the_end")
	rt.Cover(cause == 0 && nf == 2, "C11.clean_disconnect_with_subscriptions")
	b.cancel()
	b2.cancel()
	rt.Quiesce()
}
