package expiration

import (
	"time"

	rt "github.com/vx-labs/wasp/v4/zzsymxrt"
)

const symxBase = 1600000000

var symxStepNames = []string{"k0", "k1", "k2", "k3", "k4", "k5", "k6", "k7"}

// symxC04B: the timeout list alone: insert / delete / update / expire against a reference table.
func symxC04B() {
	ops := rt.Param("ops", 3)
	l := NewList()
	type ent struct {
		live      bool
		sec, nsec int64
	}
	var ref [3]ent
	for step := 0; step < ops; step++ {
		kind := rt.Int("kind", 0, 3)
		if fixed := rt.Param(symxStepNames[step], -1); fixed >= 0 {
			// bounded script shape: the kind of this step is fixed by the check configuration
			rt.Assume(kind == int64(fixed%10) || (fixed >= 10 && kind == int64(fixed/10-1)))
		}
		switch kind {
		case 0: // insert an id that is not live
			id := int(rt.Int("id", 0, 2))
			rt.Assume(!ref[id].live)
			sec, nsec := rt.Int("sec", 0, 3), rt.Int("nsec", 0, 999999999)
			l.Insert(id, time.Unix(symxBase+sec, nsec))
			ref[id] = ent{true, sec, nsec}
		case 1: // delete a live id with its own deadline
			id := int(rt.Int("id", 0, 2))
			rt.Assume(ref[id].live)
			ok := l.Delete(id, time.Unix(symxBase+ref[id].sec, ref[id].nsec))
			rt.Assert(ok, "C04.list.delete_reports_success")
			ref[id].live = false
		case 2: // update a live id to a new deadline
			id := int(rt.Int("id", 0, 2))
			rt.Assume(ref[id].live)
			sec, nsec := rt.Int("sec", 0, 3), rt.Int("nsec", 0, 999999999)
			l.Update(id, time.Unix(symxBase+ref[id].sec, ref[id].nsec), time.Unix(symxBase+sec, nsec))
			ref[id].sec, ref[id].nsec = sec, nsec
		case 3: // expire
			sec, nsec := rt.Int("now_s", 0, 5), rt.Int("now_n", 0, 999999999)
			out := l.Expire(time.Unix(symxBase+sec, nsec))
			var cnt [3]int
			for _, v := range out {
				cnt[v.(int)]++
			}
			for id := range ref {
				if !ref[id].live {
					rt.Assert(cnt[id] == 0, "C04.list.dead_id_not_returned")
					continue
				}
				late := sec > ref[id].sec+1 || (sec == ref[id].sec+1 && nsec >= ref[id].nsec)
				early := sec < ref[id].sec-1 || (sec == ref[id].sec-1 && nsec <= ref[id].nsec)
				if late {
					rt.Assert(cnt[id] == 1, "C04.list.due_id_returned_once")
				} else if early {
					rt.Assert(cnt[id] == 0, "C04.list.future_id_not_returned")
				} else {
					rt.Assert(cnt[id] <= 1, "C04.list.at_most_once")
				}
				if cnt[id] > 0 {
					ref[id].live = false
				}
			}
		}
	}
	if rt.Param("k1", -1) < 0 {
		rt.Cover(ref[0].live && ref[1].live && ref[0].sec == ref[1].sec && ref[0].nsec == ref[1].nsec, "C04.list.equal_deadlines")
	}
}
