package wasp

import (
	rt "github.com/vx-labs/wasp/v4/zzsymxrt"
)

// symxPar runs the two operations in two goroutines and waits for both. Under the engine's
// explored-schedules mode every scheduling decision and every preemption (up to the bound) is
// a solver variable, and a vector-clock monitor reports conflicting accesses without a
// happens-before order.
func symxPar(a, b func()) {
	done := make(chan struct{}, 2)
	go func() { a(); done <- struct{}{} }()
	go func() { b(); done <- struct{}{} }()
	<-done
	<-done
}

// symxC20Pool: concurrent allocate / release on the identifier pool.
func symxC20Pool() {
	p := newMIDPool(0, 3)
	first := p.Get()
	var x, y int32 = -7, -7
	switch rt.Int("pair", 0, 2) {
	case 0:
		symxPar(func() { x = p.Get() }, func() { y = p.Get() })
		rt.Assert(x != y && x != first && y != first, "C20.pool.concurrent_gets_are_distinct")
	case 1:
		symxPar(func() { x = p.Get() }, func() { p.Put(first) })
		rt.Assert(x >= 0 && x <= 3, "C20.pool.get_beside_put_in_range")
		z := p.Get()
		rt.Assert(z != x && z >= 0, "C20.pool.no_duplicate_after_get_beside_put")
	case 2:
		second := p.Get()
		symxPar(func() { p.Put(first) }, func() { p.Put(second) })
		a, b := p.Get(), p.Get()
		rt.Assert(a != b && a >= 0 && b >= 0, "C20.pool.both_puts_take_effect")
	}
}

// symxC20Registry: concurrent operations on the local session registry.
func symxC20Registry() {
	s := NewState(1)
	b := symxNewBroker(1, 1)
	s1, _ := b.session("pre", "c", "m", 30)
	s.Create("a", s1)
	switch rt.Int("pair", 0, 2) {
	case 0:
		symxPar(func() { s.Create("x", s1) }, func() { s.Create("y", s1) })
		rt.Assert(s.Get("x") != nil && s.Get("y") != nil && s.Get("a") != nil, "C20.registry.both_creates_take_effect")
	case 1:
		symxPar(func() { s.Create("x", s1) }, func() { s.Delete("a") })
		rt.Assert(s.Get("x") != nil && s.Get("a") == nil, "C20.registry.create_and_delete_take_effect")
	case 2:
		var n int
		symxPar(func() { s.Create("x", s1) }, func() { n = len(s.ListSessions()) })
		rt.Assert(n == 1 || n == 2, "C20.registry.listing_is_a_consistent_snapshot")
	}
}

// symxC20Shutdown: a client's DISCONNECT (handled by its serve goroutine) beside a broker-wide
// DisconnectClients (another goroutine tearing the same session down).
func symxC20Shutdown() {
	b := symxNewBroker(1, 1)
	p := &symxPipeline{symxBroker: b}
	p.distributor = &PublishDistributor{ID: b.id, State: b.state.Subscriptions(), Storage: b.log}
	p.proc = NewPacketProcessor(b.local, b.state, b.writer, symxTaps{}, p.distributor, b.acks).(*packetProcessor)
	f := p.front(&symxAuth{mountPoint: "m", ids: []string{"sid"}})
	c := symxNewConn()
	rt.Assert(f.connect(c, symxConnectBytes("cid", 30, "", nil, nil, 0, false)) == nil, "C20.shutdown.connected")
	symxPar(func() { c.feed(symxDisconnect()) }, func() { f.mgr.DisconnectClients(b.ctx) })
	rt.Quiesce()
	rt.Assert(b.local.Get("sid") == nil, "C20.shutdown.session_gone")
	rt.Assert(len(b.state.SessionMetadatas().All()) == 0, "C20.shutdown.record_gone")
}
