package wasp

import (
	"github.com/vx-labs/mqtt-protocol/packet"
	"github.com/vx-labs/wasp/v4/wasp/sessions"
	rt "github.com/vx-labs/wasp/v4/zzsymxrt"
)

// symxPar runs the two operations in two goroutines and waits for both. Under the engine's
// explored-schedules mode every scheduling decision and every preemption (up to the bound) is
// a solver variable, and a vector-clock monitor reports conflicting accesses without a
// happens-before order.
func symxPar(a, b func()) {
	done := make(chan struct{}, 2)
	go func() { a(); done <- struct{}{} }()
	go func() { b(); done <- struct{}{} }()
	<-done
	<-done
}

// symxC20Pool: concurrent allocate / release on the identifier pool.
func symxC20Pool() {
	max := int32(rt.Int("max", 1, 3))
	p := newMIDPool(0, max)
	first := p.Get()
	var x, y int32 = -7, -7
	switch rt.Int("pair", 0, 2) {
	case 0:
		symxPar(func() { x = p.Get() }, func() { y = p.Get() })
		rt.Assert(x != first && y != first, "C20.pool.concurrent_gets_avoid_outstanding_ids")
		// with a single free identifier one of the two must be told the pool is exhausted
		rt.Assert(x != y || (x == -1 && max == 0), "C20.pool.concurrent_gets_are_distinct")
		rt.Assert(max > 1 || (x == -1) != (y == -1), "C20.pool.last_identifier_handed_out_once")
	case 1:
		symxPar(func() { x = p.Get() }, func() { p.Put(first) })
		rt.Assert(x >= 0 && x <= max, "C20.pool.get_beside_put_in_range")
		z := p.Get()
		rt.Assert(z != x && z >= 0, "C20.pool.no_duplicate_after_get_beside_put")
	case 2:
		rt.Assume(max >= 2)
		second := p.Get()
		symxPar(func() { p.Put(first) }, func() { p.Put(second) })
		a, b := p.Get(), p.Get()
		rt.Assert(a != b && a >= 0 && b >= 0, "C20.pool.both_puts_take_effect")
	}
}

// symxC20Registry: concurrent operations on the local session registry.
func symxC20Registry() {
	s := NewState(1)
	b := symxNewBroker(1, 1)
	s1, _ := b.session("pre", "c", "m", 30)
	s.Create("a", s1)
	switch rt.Int("pair", 0, 3) {
	case 3:
		var got *sessions.Session
		symxPar(func() { s.Create("x", s1) }, func() { got = s.Get("a") })
		rt.Assert(got == s1 && s.Get("x") != nil, "C20.registry.lookup_beside_create")
	case 0:
		symxPar(func() { s.Create("x", s1) }, func() { s.Create("y", s1) })
		rt.Assert(s.Get("x") != nil && s.Get("y") != nil && s.Get("a") != nil, "C20.registry.both_creates_take_effect")
	case 1:
		symxPar(func() { s.Create("x", s1) }, func() { s.Delete("a") })
		rt.Assert(s.Get("x") != nil && s.Get("a") == nil, "C20.registry.create_and_delete_take_effect")
	case 2:
		var n int
		symxPar(func() { s.Create("x", s1) }, func() { n = len(s.ListSessions()) })
		rt.Assert(n == 1 || n == 2, "C20.registry.listing_is_a_consistent_snapshot")
	}
}

// symxC20Shutdown: a client's DISCONNECT (handled by its serve goroutine) beside a broker-wide
// DisconnectClients (another goroutine tearing the same session down).
func symxC20Shutdown() {
	b := symxNewBroker(1, 1)
	p := &symxPipeline{symxBroker: b}
	p.distributor = &PublishDistributor{ID: b.id, State: b.state.Subscriptions(), Storage: b.log}
	p.proc = NewPacketProcessor(b.local, b.state, b.writer, symxTaps{}, p.distributor, b.acks).(*packetProcessor)
	f := p.front(&symxAuth{mountPoint: "m", ids: []string{"sid"}})
	c := symxNewConn()
	rt.Assert(f.connect(c, symxConnectBytes("cid", 30, "", nil, nil, 0, false)) == nil, "C20.shutdown.connected")
	symxPar(func() { c.feed(symxDisconnect()) }, func() { f.mgr.DisconnectClients(b.ctx) })
	rt.Quiesce()
	rt.Assert(b.local.Get("sid") == nil, "C20.shutdown.session_gone")
	rt.Assert(len(b.state.SessionMetadatas().All()) == 0, "C20.shutdown.record_gone")
}

// symxC20Writer: a new QoS 1 delivery (writer loop) beside the expiry sweep re-sending an
// earlier one (ticker goroutine) for the same session: identifiers stay distinct, every packet
// reaches the connection whole, nothing is lost.
func symxC20Writer() {
	b := symxNewBroker(1, 1)
	_, c := b.session("s", "c", "m", 30)
	b.writer.midPool.Get() // identifier 0 is never used on the wire
	pubA := &packet.Publish{Header: &packet.Header{}, Topic: []byte("m/t"), Payload: []byte("A")}
	pubB := &packet.Publish{Header: &packet.Header{}, Topic: []byte("m/t"), Payload: []byte("B")}
	b.writer.send(b.ctx, []string{"s"}, []int32{1}, pubA)
	symxClockMs += 4000
	symxTick()
	sec, nsec := 1600000000+symxClockMs/1000, (symxClockMs%1000)*1000000
	symxPar(func() {
		b.writer.mtx.Lock()
		b.writer.send(b.ctx, []string{"s"}, []int32{1}, pubB)
		b.writer.mtx.Unlock()
	}, func() { b.expire(sec, nsec) })
	pubs := symxPublishes(c.written())
	rt.Assert(len(pubs) == 3, "C20.writer.every_packet_written_whole")
	var idA, idB int32 = -1, -1
	nA, nB := 0, 0
	for _, pk := range pubs {
		if string(pk.Payload) == "A" {
			nA++
			rt.Assert(idA < 0 || idA == pk.MessageId, "C20.writer.retransmission_keeps_its_identifier")
			idA = pk.MessageId
		} else {
			nB++
			idB = pk.MessageId
		}
	}
	rt.Assert(nA == 2 && nB == 1, "C20.writer.retransmission_and_new_delivery_both_happen")
	rt.Assert(idA != idB && idA >= 1 && idB >= 1, "C20.writer.identifiers_distinct")
}
