package wasp

import (
	"bytes"

	"github.com/vx-labs/mqtt-protocol/packet"
	rt "github.com/vx-labs/wasp/v4/zzsymxrt"
)

var symxRetTopics = []string{"a", "a/b", "b"}
var symxRetFilters = []string{"a", "a/b", "b", "#", "a/#", "+", "+/b"}

func symxFilterMatches(f, t string) bool {
	switch f {
	case "#":
		return true
	case "a/#":
		return t == "a" || t == "a/b"
	case "+":
		return t == "a" || t == "b"
	case "+/b":
		return t == "a/b"
	}
	return f == t
}

// symxC07: retained publishes, clears and a later subscribe, through the real packet processor,
// the real log consumer and the real writer. A live subscriber (on '#') is connected throughout.
func symxC07() {
	ops := rt.Param("ops", 2)
	b := symxNewBroker(1, 1)
	p := b.start(nil)
	pubS, pubC := b.session("pub", "cp", "m", 30)
	liveS, liveC := b.session("live", "cl", "m", 30)
	_ = liveS
	// the live subscriber subscribes to everything before any publish
	err := p.proc.Process(b.ctx, liveS, liveC, &packet.Subscribe{Header: &packet.Header{}, MessageId: 1, Topic: [][]byte{[]byte("#")}, Qos: []int32{0}})
	rt.Assert(err == nil, "C07.live_subscribe_ok")
	rt.Quiesce()
	var ref [3][]byte // topic -> last retained payload (nil = none)
	type liveExp struct {
		topic   int
		payload []byte
	}
	var expectLive []liveExp
	for step := 0; step < ops; step++ {
		t := int(rt.Int("topic", 0, 2))
		var payload []byte
		if !rt.Bool("clear") {
			payload = []byte{rt.Byte("payload"), byte('0' + step)}
		}
		retain := rt.Bool("retain")
		symxTick()
		err := p.proc.Process(b.ctx, pubS, pubC, &packet.Publish{Header: &packet.Header{Retain: retain}, Topic: []byte(symxRetTopics[t]), Payload: payload})
		rt.Assert(err == nil, "C07.publish_accepted")
		rt.Quiesce()
		if retain {
			ref[t] = payload
		}
		expectLive = append(expectLive, liveExp{t, payload})
	}
	// live copies: one per publish, in order, never flagged retained
	live := symxPublishes(liveC.written())
	rt.Assert(len(live) == len(expectLive), "C07.live_subscriber_gets_every_publish_once")
	for k, lp := range live {
		if k < len(expectLive) {
			rt.Assert(!lp.Header.Retain, "C07.live_copy_not_flagged_retained")
			rt.Assert(string(lp.Topic) == symxRetTopics[expectLive[k].topic] && bytes.Equal(lp.Payload, expectLive[k].payload), "C07.live_copy_intact")
		}
	}
	// a new subscriber with a solver-chosen filter, on this node or on a second node that has
	// received this node's broadcasts
	target, tp := b, p
	var b2 *symxBroker
	if rt.Param("replicate", 0) == 1 && rt.Bool("subscribe_on_peer") {
		b2 = symxNewBroker(2, 1)
		tp = b2.start(nil)
		target = b2
		// gossip may reach the peer in any order: the solver picks a pair of broadcasts to swap
		// ... or lose the tail of them and be repaired by the periodic push/pull
		symxGossip(rt.Drain(b.bq), b, b2)
	}
	newS, newC := target.session("new", "cn", "m", 30)
	f := int(rt.Int("filter", 0, int64(len(symxRetFilters)-1)))
	subTopics, subQos := [][]byte{[]byte(symxRetFilters[f])}, []int32{0}
	f2 := -1
	if rt.Param("two_filters", 0) == 1 && rt.Bool("second_filter") {
		// one SUBSCRIBE packet with two filters: each is a subscription of its own
		f2 = int(rt.Int("filter2", 0, int64(len(symxRetFilters)-1)))
		rt.Assume(f2 != f)
		subTopics, subQos = [][]byte{[]byte(symxRetFilters[f2]), []byte(symxRetFilters[f])}, []int32{0, 0}
	}
	symxTick()
	err = tp.proc.Process(target.ctx, newS, newC, &packet.Subscribe{Header: &packet.Header{}, MessageId: 7, Topic: subTopics, Qos: subQos})
	rt.Assert(err == nil, "C07.subscribe_ok")
	rt.Quiesce()
	pkts := newC.written()
	rt.Assert(len(pkts) >= 1, "C07.suback_written")
	if len(pkts) >= 1 {
		_, isSubAck := pkts[0].(*packet.SubAck)
		rt.Assert(isSubAck, "C07.suback_precedes_replay")
	}
	replay := symxPublishes(pkts)
	var seen [3]int
	for _, rp := range replay {
		rt.Assert(rp.Header.Retain, "C07.replayed_copy_flagged_retained")
		for t := range symxRetTopics {
			if string(rp.Topic) == symxRetTopics[t] {
				seen[t]++
				rt.Assert(bytes.Equal(rp.Payload, ref[t]), "C07.replay_carries_last_retained_payload")
			}
		}
	}
	for t := range symxRetTopics {
		want := 0
		if len(ref[t]) > 0 && symxFilterMatches(symxRetFilters[f], symxRetTopics[t]) {
			want++
		}
		if f2 >= 0 && len(ref[t]) > 0 && symxFilterMatches(symxRetFilters[f2], symxRetTopics[t]) {
			want++
		}
		rt.Assert(seen[t] == want, "C07.exactly_one_replay_per_matching_retained_topic")
	}
	if ops >= 2 {
		rt.Cover(len(replay) >= 2, "C07.two_topics_replayed")
	}
	if rt.Param("resubscribe", 0) == 1 && f2 < 0 && target == b {
		// the retained value of one topic changes, then the same session subscribes again with
		// the very same filter: a later subscription like any other
		t := int(rt.Int("topic_again", 0, 2))
		np := []byte{rt.Byte("payload_again"), 'R'}
		symxTick()
		rt.Assert(p.proc.Process(b.ctx, pubS, pubC, &packet.Publish{Header: &packet.Header{Retain: true}, Topic: []byte(symxRetTopics[t]), Payload: np}) == nil, "C07.publish_accepted")
		rt.Quiesce()
		ref[t] = np
		before := len(symxPublishes(newC.written()))
		symxTick()
		rt.Assert(tp.proc.Process(target.ctx, newS, newC, &packet.Subscribe{Header: &packet.Header{}, MessageId: 8, Topic: subTopics, Qos: subQos}) == nil, "C07.subscribe_ok")
		rt.Quiesce()
		again := symxPublishes(newC.written())[before:]
		var seen2 [3]int
		for _, rp := range again {
			for k := range symxRetTopics {
				if string(rp.Topic) == symxRetTopics[k] && rp.Header.Retain && bytes.Equal(rp.Payload, ref[k]) {
					seen2[k]++
				}
			}
		}
		for k := range symxRetTopics {
			want := 0
			if len(ref[k]) > 0 && symxFilterMatches(symxRetFilters[f], symxRetTopics[k]) {
				want = 1
			}
			// the live copy of the new publish (not flagged) may be there as well; flagged replays are counted
			rt.Assert(seen2[k] == want, "C07.resubscription_replays_the_current_retained_messages")
		}
	}
	rt.Cover(len(ref[0]) == 0 && len(ref[1]) > 0, "C07.child_retained_parent_not")
	b.cancel()
	if b2 != nil {
		b2.cancel()
	}
	rt.Quiesce()
}
