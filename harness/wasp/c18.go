package wasp

import (
	"bytes"

	"github.com/vx-labs/mqtt-protocol/packet"
	rt "github.com/vx-labs/wasp/v4/zzsymxrt"
)

// symxBoundLengths walks the packets of a symbolic stream and keeps every remaining-length
// field small (a single byte <= maxLen) or an over-long chain of continuation bytes, so that
// the decoder's buffer allocation stays bounded while every header shape remains reachable.
func symxBoundLengths(s []byte, maxLen byte) {
	pos := 0
	for pos+1 < len(s) {
		l := s[pos+1]
		if l >= 0x80 {
			// a chain of continuation bytes up to the end of the stream (malformed remaining length)
			for k := pos + 1; k < len(s) && k < pos+5; k++ {
				rt.Assume(s[k] >= 0x80)
			}
			return
		}
		rt.Assume(l <= maxLen)
		pos += 2 + int(l)
	}
}

// symxRoundTrip: a witness publisher/subscriber pair completes a QoS 1 exchange on the node.
func symxRoundTrip(p *symxPipeline, tag string) bool {
	subS, subC := p.session("wsub"+tag, "cws"+tag, "w", 30)
	pubS, pubC := p.session("wpub"+tag, "cwp"+tag, "w", 30)
	symxTick()
	if p.proc.Process(p.ctx, subS, subC, &packet.Subscribe{Header: &packet.Header{}, MessageId: 1, Topic: [][]byte{[]byte("k")}, Qos: []int32{0}}) != nil {
		return false
	}
	rt.Quiesce()
	symxTick()
	if p.proc.Process(p.ctx, pubS, pubC, &packet.Publish{Header: &packet.Header{Qos: 1}, MessageId: 3, Topic: []byte("k"), Payload: []byte("ok")}) != nil {
		return false
	}
	rt.Quiesce()
	return symxCount(pubC.written(), packet.PUBACK) == 1 && len(symxPublishes(subC.written())) == 1
}

// symxC18A: arbitrary bytes before CONNECT. Whatever the first bytes of a connection are, no
// goroutine of the broker panics (a panic escaping any goroutine is reported by the engine as a
// violation) and other clients keep publishing and receiving.
func symxC18A() {
	n := rt.Param("bytes", 6)
	b := symxNewBroker(1, 1)
	p := b.start(nil)
	f := p.front(&symxAuth{mountPoint: "m", ids: []string{"x1", "x2"}})
	stream := rt.Bytes("stream", int(rt.Int("len", 0, int64(n))))
	symxBoundLengths(stream, byte(rt.Param("maxlen", 24)))
	c := symxNewConn()
	c.eof = true
	f.connect(c, stream)
	rt.Quiesce()
	rt.Assert(symxRoundTrip(p, "a"), "C18.other_clients_unaffected")
	b.cancel()
	c.Close()
	rt.Quiesce()
}

// symxC18B: arbitrary bytes after CONNECT, possibly several packets, with a subscription and an
// in-flight delivery present so that every dispatch arm has something to act on.
func symxC18B() {
	n := rt.Param("bytes", 6)
	b := symxNewBroker(1, 1)
	p := b.start(nil)
	f := p.front(&symxAuth{mountPoint: "m", ids: []string{"x1", "x2"}})
	c := symxNewConn()
	rt.Assert(f.connect(c, symxConnectBytes("cid", 30, "", []byte("w"), []byte("bye"), 0, false)) == nil, "C18.connect_accepted")
	rt.Quiesce()
	symxTick()
	c.feed(symxSubscribeBytes(1, "q", 1))
	rt.Quiesce()
	// an in-flight QoS 1 delivery towards the session (identifier 1)
	b.writer.Send(b.ctx, []string{"x1"}, []int32{1}, &packet.Publish{Header: &packet.Header{}, Topic: []byte("m/q"), Payload: []byte("p")})
	rt.Quiesce()
	symxPoolRetryWait(2)
	stream := rt.Bytes("stream", int(rt.Int("len", 0, int64(n))))
	symxBoundLengths(stream, byte(rt.Param("maxlen", 24)))
	symxTick()
	c.feed(stream)
	c.feedEOF()
	rt.Quiesce()
	symxSweepNow(b) // whatever the stream left in flight times out (handshakes the client never completes)
	rt.Assert(symxRoundTrip(p, "b"), "C18.other_clients_unaffected")
	rt.Assert(b.local.Get("x1") == nil, "C18.stream_end_terminates_only_that_session")
	b.cancel()
	rt.Quiesce()
}

// symxC18C: structure-aware mutation. A valid packet sequence (SUBSCRIBE, QoS 1 PUBLISH, QoS 2
// PUBLISH, PUBREL, UNSUBSCRIBE, PINGREQ) is truncated at a solver-chosen offset and has up to
// `mutations` solver-chosen positions replaced by arbitrary bytes (flipped type/flag nibbles,
// corrupted remaining-length and length prefixes, QoS 3, identifier 0, empty topic lists ...).
func symxC18C() {
	nmut := rt.Param("mutations", 1)
	b := symxNewBroker(1, 1)
	p := b.start(nil)
	f := p.front(&symxAuth{mountPoint: "m", ids: []string{"x1", "x2"}})
	c := symxNewConn()
	rt.Assert(f.connect(c, symxConnectBytes("cid", 30, "", []byte("w"), []byte("bye"), 0, false)) == nil, "C18.connect_accepted")
	rt.Quiesce()
	var stream []byte
	stream = append(stream, symxSubscribeBytes(1, "q", 1)...)
	stream = append(stream, symxPublishBytes("q", []byte("p"), 1, 2, false)...)
	stream = append(stream, symxPublishBytes("r", []byte("p"), 2, 3, true)...)
	stream = append(stream, symxFrame(0x62, []byte{0, 3})...)                                 // PUBREL 3
	stream = append(stream, symxFrame(0xA2, append([]byte{0, 4}, symxLP([]byte("q"))...))...) // UNSUBSCRIBE
	stream = append(stream, symxPingReq()...)
	cut := int(rt.Int("truncate_at", 0, int64(len(stream))))
	stream = stream[:cut]
	for k := 0; k < nmut; k++ {
		if len(stream) == 0 {
			break
		}
		pos := int(rt.Int("mutate_at", 0, int64(len(stream)-1)))
		stream[pos] = rt.Byte("mutant")
	}
	symxBoundLengths(stream, byte(rt.Param("maxlen", 24)))
	symxTick()
	c.feed(stream)
	c.feedEOF()
	rt.Quiesce()
	symxPoolRetryWait(2)
	symxSweepNow(b) // handshakes the client never completes time out
	rt.Assert(symxRoundTrip(p, "c"), "C18.other_clients_unaffected")
	rt.Assert(b.local.Get("x1") == nil, "C18.stream_end_terminates_only_that_session")
	b.cancel()
	rt.Quiesce()
}

// symxC18D: valid packet sequences of one client racing the delivery side. The log consumer polls an
// idle log every 100 ms (the harness holds it between two polls), so what the client sends right
// after its PUBACK - UNSUBSCRIBE, DISCONNECT, a dropped connection - is handled before the stored message is
// written out; whichever it is, delivery to other clients goes on.
func symxC18D() {
	b := symxNewBroker(1, 1)
	b.log.resume = make(chan struct{})
	p := b.start(nil)
	f := p.front(&symxAuth{mountPoint: "m", ids: []string{"x1", "x2"}})
	c := symxNewConn()
	rt.Assert(f.connect(c, symxConnectBytes("cid", 30, "", nil, nil, 0, false)) == nil, "C18.connect_accepted")
	rt.Quiesce()
	symxTick()
	c.feed(symxSubscribeBytes(1, "q", byte(rt.Int("sub_qos", 0, 2))))
	rt.Quiesce()
	symxTick()
	c.feed(symxPublishBytes("q", []byte("p"), 1, 2, false))
	rt.Quiesce()
	rt.Assert(symxCount(c.written(), packet.PUBACK) == 1, "C18.publish_acknowledged")
	then := rt.Int("then", 0, 3)
	symxTick()
	switch then {
	case 0:
		c.feed(symxFrame(0xA2, append([]byte{0, 4}, symxLP([]byte("q"))...)))
	case 1:
		c.feed(symxDisconnect())
	case 2:
		c.feedEOF()
	}
	rt.Quiesce()
	close(b.log.resume)
	rt.Quiesce()
	symxPoolRetryWait(2)
	rt.Cover(then == 0, "C18.stored_message_finds_no_recipient_left")
	rt.Assert(symxRoundTrip(p, "d"), "C18.other_clients_unaffected")
	if then == 3 {
		rt.Assert(len(symxPublishes(c.written())) >= 1, "C18.own_message_delivered")
	}
	b.cancel()
	c.Close()
	rt.Quiesce()
}

// symxC18E: two clients accepted by the same setup worker. The victim's PUBLISH (remaining
// length of two bytes) reaches the broker in two pieces, split at a solver-chosen offset, and
// between the two pieces the other client sends a valid packet of its own (PINGREQ, or a
// PUBLISH, by solver choice). Whatever one client sends, the other is served as if alone: the
// victim's message reaches the subscriber intact and both connections stay up.
func symxC18E() {
	b := symxNewBroker(1, 1)
	p := b.start(nil)
	f := p.front(&symxAuth{mountPoint: "m", ids: []string{"x1", "x2", "x3"}})
	sub, victim, other := symxNewConn(), symxNewConn(), symxNewConn()
	rt.Assert(f.connect(sub, symxConnectBytes("csub", 30, "", nil, nil, 0, false)) == nil, "C18.connect_accepted")
	rt.Assert(f.connect(victim, symxConnectBytes("cvic", 30, "", nil, nil, 0, false)) == nil, "C18.connect_accepted")
	rt.Assert(f.connect(other, symxConnectBytes("coth", 30, "", nil, nil, 0, false)) == nil, "C18.connect_accepted")
	rt.Quiesce()
	symxTick()
	sub.feed(symxSubscribeBytes(1, "#", 0))
	rt.Quiesce()
	payload := make([]byte, 140)
	for k := range payload {
		payload[k] = byte('A' + k%26)
	}
	pub := symxPublishBytes("v", payload, 1, 9, false)
	cut := int(rt.Int("split_at", 1, 6))
	symxTick()
	victim.feed(pub[:cut])
	rt.Quiesce()
	symxTick()
	if rt.Bool("other_client_publishes") {
		other.feed(symxPublishBytes("o", []byte("x"), 0, 0, false))
	} else {
		other.feed(symxPingReq())
	}
	rt.Quiesce()
	symxTick()
	victim.feed(pub[cut:])
	rt.Quiesce()
	symxPoolRetryWait(2)
	rt.Assert(!victim.isClosed() && !other.isClosed(), "C18.other_clients_unaffected")
	rt.Assert(symxCount(victim.written(), packet.PUBACK) == 1, "C18.publish_acknowledged")
	found := 0
	for _, g := range symxPublishes(sub.written()) {
		if string(g.Topic) == "v" && bytes.Equal(g.Payload, payload) {
			found++
		}
	}
	rt.Assert(found == 1, "C18.split_packet_of_one_client_survives_traffic_of_another")
	rt.Cover(cut == 2, "C18.split_inside_the_remaining_length")
	b.cancel()
	sub.Close()
	victim.Close()
	other.Close()
	rt.Quiesce()
}
