package ack

import (
	"time"

	"github.com/vx-labs/mqtt-protocol/packet"
	rt "github.com/vx-labs/wasp/v4/zzsymxrt"
)

func symxPar(a, b func()) {
	done := make(chan struct{}, 2)
	go func() { a(); done <- struct{}{} }()
	go func() { b(); done <- struct{}{} }()
	<-done
	<-done
}

// symxC20Queue: concurrent register / acknowledge / sweep on the in-flight table: whatever the
// interleaving, each entry is resolved exactly once, and entries registered concurrently for
// the same second are both swept.
func symxC20Queue() {
	q := NewQueue()
	var acked, expired [2]int
	cb := func(k int) Callback {
		return func(exp bool, stored, received packet.Packet) {
			if exp {
				expired[k]++
			} else {
				acked[k]++
			}
		}
	}
	d := time.Unix(symxBase+1, 200000000)
	late := time.Unix(symxBase+5, 0)
	pub := func(id int32) packet.Packet { return &packet.Publish{Header: &packet.Header{Qos: 1}, MessageId: id} }
	ack := func(id int32) packet.Packet { return &packet.PubAck{Header: &packet.Header{}, MessageId: id} }
	switch rt.Int("pair", 0, 3) {
	case 0: // two registrations falling into the same second, then a sweep
		symxPar(func() { q.Insert("s", pub(1), d, cb(0)) }, func() { q.Insert("s", pub(2), d.Add(100*time.Millisecond), cb(1)) })
		q.Expire(late)
		rt.Assert(expired[0] == 1 && expired[1] == 1, "C20.queue.concurrent_registrations_both_expire")
	case 1: // acknowledge beside sweep: exactly one outcome
		q.Insert("s", pub(1), d, cb(0))
		symxPar(func() { q.Ack("s", ack(1)) }, func() { q.Expire(late) })
		q.Expire(late.Add(time.Second))
		rt.Assert(acked[0]+expired[0] == 1, "C20.queue.ack_beside_sweep_resolves_exactly_once")
	case 2: // register beside a sweep that is due for that second
		q.Insert("s", pub(1), d, cb(0))
		symxPar(func() { q.Insert("s", pub(2), d.Add(100*time.Millisecond), cb(1)) }, func() { q.Expire(late) })
		q.Expire(late.Add(2 * time.Second))
		rt.Assert(expired[0] == 1, "C20.queue.first_entry_expires_once")
		rt.Assert(expired[1] == 1, "C20.queue.entry_registered_beside_a_sweep_still_expires")
	case 3: // register beside acknowledge of another entry with the same deadline
		q.Insert("s", pub(1), d, cb(0))
		symxPar(func() { q.Insert("s", pub(2), d, cb(1)) }, func() { q.Ack("s", ack(1)) })
		q.Expire(late)
		rt.Assert(acked[0] == 1 && expired[0] == 0, "C20.queue.acknowledged_entry_resolved_once")
		rt.Assert(expired[1] == 1, "C20.queue.other_entry_not_disturbed")
	}
}
