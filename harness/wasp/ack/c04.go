package ack

import (
	"time"

	"github.com/vx-labs/mqtt-protocol/packet"
	rt "github.com/vx-labs/wasp/v4/zzsymxrt"
)

const symxBase = 1600000000

var symxStepNames = []string{"k0", "k1", "k2", "k3", "k4", "k5", "k6", "k7"}

type symxEntry struct {
	live    bool
	want    byte
	sec     int64
	nsec    int64
	acked   int
	expired int
}

func symxStored(kind int64, id int32) packet.Packet {
	switch kind {
	case 0:
		return &packet.Publish{Header: &packet.Header{Qos: 1}, MessageId: id}
	case 1:
		return &packet.PubRel{Header: &packet.Header{}, MessageId: id}
	case 2:
		return &packet.Publish{Header: &packet.Header{Qos: 2}, MessageId: id}
	}
	return &packet.PubRec{Header: &packet.Header{}, MessageId: id}
}

func symxWant(kind int64) byte {
	switch kind {
	case 0:
		return packet.PUBACK
	case 1:
		return packet.PUBCOMP
	case 2:
		return packet.PUBREC
	}
	return packet.PUBREL
}

func symxAck(kind int64, id int32) packet.Packet {
	switch kind {
	case 0:
		return &packet.PubAck{Header: &packet.Header{}, MessageId: id}
	case 1:
		return &packet.PubComp{Header: &packet.Header{}, MessageId: id}
	case 2:
		return &packet.PubRec{Header: &packet.Header{}, MessageId: id}
	}
	return &packet.PubRel{Header: &packet.Header{}, MessageId: id}
}

// symxC04A: register / acknowledge / sweep sequences over sessions x identifiers with
// symbolic deadlines and sweep instants, against a reference table.
// keys: 0=(s,1) 1=(s,2) 2=(t,1); key 3 in an acknowledge = unknown identifier.
func symxC04A() {
	ops := rt.Param("ops", 3)
	kinds := int64(rt.Param("kinds", 2))
	q := NewQueue()
	prefixes := []string{"s", "s", "t"}
	ids := []int32{1, 2, 1}
	var ref [3]symxEntry
	same := func(snapshot [3]symxEntry) bool {
		ok := true
		for k := range ref {
			ok = ok && ref[k].acked == snapshot[k].acked && ref[k].expired == snapshot[k].expired
		}
		return ok
	}
	for step := 0; step < ops; step++ {
		kind := rt.Int("kind", 0, 2)
		if fixed := rt.Param(symxStepNames[step], -1); fixed >= 0 {
			// bounded script shape: the kind of this step is fixed by the check configuration
			rt.Assume(kind == int64(fixed%10) || (fixed >= 10 && kind == int64(fixed/10-1)))
		}
		before := ref
		switch kind {
		case 0: // register
			k := int(rt.Int("key", 0, 2))
			pk := rt.Int("stored", 0, kinds-1)
			sec, nsec := rt.Int("dsec", 0, 2), rt.Int("dnsec", 0, 999999999)
			kk := k
			err := q.Insert(prefixes[k], symxStored(pk, ids[k]), time.Unix(symxBase+sec, nsec), func(expired bool, stored, received packet.Packet) {
				if expired {
					ref[kk].expired++
				} else {
					ref[kk].acked++
				}
			})
			if ref[k].live {
				rt.Assert(err == ErrDupMID, "C04.duplicate_rejected")
			} else {
				rt.Assert(err == nil, "C04.register_accepted")
				ref[k].live, ref[k].want, ref[k].sec, ref[k].nsec = true, symxWant(pk), sec, nsec
			}
			rt.Assert(same(before), "C04.register_fires_nothing")
		case 1: // acknowledge (possibly wrong type, possibly unknown identifier)
			k := int(rt.Int("key", 0, 3))
			at := rt.Int("acktype", 0, kinds-1)
			if k == 3 {
				err := q.Ack("s", symxAck(at, 9))
				rt.Assert(err != nil, "C04.unknown_id_rejected")
				rt.Assert(same(before), "C04.unknown_id_fires_nothing")
				break
			}
			err := q.Ack(prefixes[k], symxAck(at, ids[k]))
			exp := before
			if ref[k].live && symxAck(at, 0).Type() == ref[k].want {
				exp[k].acked++
				rt.Assert(err == nil, "C04.expected_ack_accepted")
				rt.Assert(same(exp), "C04.ack_resolves_exactly_that_entry")
				ref[k].live = false
			} else {
				rt.Assert(err != nil, "C04.unexpected_ack_rejected")
				rt.Assert(same(exp), "C04.unexpected_ack_fires_nothing")
			}
		case 2: // sweep
			sec, nsec := rt.Int("now_s", 0, 4), rt.Int("now_n", 0, 999999999)
			q.Expire(time.Unix(symxBase+sec, nsec))
			for k := range ref {
				fired := ref[k].expired - before[k].expired
				rt.Assert(ref[k].acked == before[k].acked, "C04.sweep_never_acknowledges")
				if !ref[k].live {
					rt.Assert(fired == 0, "C04.resolved_entry_not_fired_again")
					continue
				}
				// d = deadline, n = now: must expire if n >= d + 1s; must not if n <= d - 1s
				late := rt.Or(sec > ref[k].sec+1, rt.And(sec == ref[k].sec+1, nsec >= ref[k].nsec))
				early := rt.Or(sec < ref[k].sec-1, rt.And(sec == ref[k].sec-1, nsec <= ref[k].nsec))
				rt.Assert(rt.Implies(late, fired == 1), "C04.expired_at_first_sweep_after_deadline")
				rt.Assert(rt.Implies(early, fired == 0), "C04.not_expired_before_deadline")
				rt.Assert(fired == 0 || fired == 1, "C04.at_most_once")
				if fired > 0 {
					ref[k].live = false
				}
			}
		}
	}
	tie := rt.And(ref[0].live && ref[1].live, rt.And(ref[0].sec == ref[1].sec, ref[0].nsec == ref[1].nsec))
	if rt.Param("k1", -1) < 0 {
		rt.Cover(tie, "C04.two_live_entries_with_equal_deadlines")
	}
}
