package ack

import (
	"time"

	"github.com/vx-labs/mqtt-protocol/packet"
	rt "github.com/vx-labs/wasp/v4/zzsymxrt"
)

const symxBase = 1600000000

type symxEntry struct {
	live    bool
	want    byte
	sec     int64
	nsec    int64
	acked   int
	expired int
}

func symxStored(kind int64, id int32) packet.Packet {
	switch kind {
	case 0:
		return &packet.Publish{Header: &packet.Header{Qos: 1}, MessageId: id}
	case 1:
		return &packet.Publish{Header: &packet.Header{Qos: 2}, MessageId: id}
	case 2:
		return &packet.PubRec{Header: &packet.Header{}, MessageId: id}
	}
	return &packet.PubRel{Header: &packet.Header{}, MessageId: id}
}

func symxWant(kind int64) byte {
	switch kind {
	case 0:
		return packet.PUBACK
	case 1:
		return packet.PUBREC
	case 2:
		return packet.PUBREL
	}
	return packet.PUBCOMP
}

func symxAck(kind int64, id int32) packet.Packet {
	switch kind {
	case 0:
		return &packet.PubAck{Header: &packet.Header{}, MessageId: id}
	case 1:
		return &packet.PubRec{Header: &packet.Header{}, MessageId: id}
	case 2:
		return &packet.PubRel{Header: &packet.Header{}, MessageId: id}
	}
	return &packet.PubComp{Header: &packet.Header{}, MessageId: id}
}

// symxC04A: register / acknowledge / sweep sequences over 2 sessions x 2 identifiers with
// symbolic deadlines and sweep instants, against a reference table.
func symxC04A() {
	ops := rt.Param("ops", 3)
	q := NewQueue()
	prefixes := []string{"s", "t"}
	ids := []int32{1, 2}
	var ref [4]symxEntry
	check := func(snapshot [4]symxEntry, label string) {
		for k := range ref {
			rt.Assert(ref[k].acked == snapshot[k].acked && ref[k].expired == snapshot[k].expired, label)
		}
	}
	for step := 0; step < ops; step++ {
		kind := rt.Int("kind", 0, 2)
		before := ref
		switch kind {
		case 0: // register
			k := int(rt.Int("key", 0, 3))
			pk := rt.Int("stored", 0, 3)
			sec, nsec := rt.Int("dsec", 0, 3), rt.Int("dnsec", 0, 999999999)
			kk := k
			err := q.Insert(prefixes[k/2], symxStored(pk, ids[k%2]), time.Unix(symxBase+sec, nsec), func(expired bool, stored, received packet.Packet) {
				if expired {
					ref[kk].expired++
				} else {
					ref[kk].acked++
				}
			})
			if ref[k].live {
				rt.Assert(err == ErrDupMID, "C04.duplicate_rejected")
			} else {
				rt.Assert(err == nil, "C04.register_accepted")
				ref[k].live, ref[k].want, ref[k].sec, ref[k].nsec = true, symxWant(pk), sec, nsec
			}
			check(before, "C04.register_fires_nothing")
		case 1: // acknowledge (possibly wrong type, possibly unknown identifier)
			k := int(rt.Int("key", 0, 4))
			at := rt.Int("acktype", 0, 3)
			var err error
			if k == 4 {
				err = q.Ack("s", symxAck(at, 9))
				rt.Assert(err != nil, "C04.unknown_id_rejected")
				check(before, "C04.unknown_id_fires_nothing")
				break
			}
			err = q.Ack(prefixes[k/2], symxAck(at, ids[k%2]))
			exp := before
			if ref[k].live && symxAck(at, 0).Type() == ref[k].want {
				exp[k].acked++
				rt.Assert(err == nil, "C04.expected_ack_accepted")
				check(exp, "C04.ack_resolves_exactly_that_entry")
				ref[k].live = false
			} else {
				rt.Assert(err != nil, "C04.unexpected_ack_rejected")
				check(exp, "C04.unexpected_ack_fires_nothing")
			}
		case 2: // sweep
			sec, nsec := rt.Int("nsec_s", 0, 5), rt.Int("nsec_n", 0, 999999999)
			q.Expire(time.Unix(symxBase+sec, nsec))
			for k := range ref {
				fired := ref[k].expired - before[k].expired
				rt.Assert(ref[k].acked == before[k].acked, "C04.sweep_never_acknowledges")
				if !ref[k].live {
					rt.Assert(fired == 0, "C04.resolved_entry_not_fired_again")
					continue
				}
				// d = deadline, n = now. must expire if n >= d + 1s; must not if n <= d - 1s
				late := sec > ref[k].sec+1 || (sec == ref[k].sec+1 && nsec >= ref[k].nsec)
				early := sec < ref[k].sec-1 || (sec == ref[k].sec-1 && nsec <= ref[k].nsec)
				if late {
					rt.Assert(fired == 1, "C04.expired_at_first_sweep_after_deadline")
				} else if early {
					rt.Assert(fired == 0, "C04.not_expired_before_deadline")
				} else {
					rt.Assert(fired == 0 || fired == 1, "C04.at_most_once")
				}
				if fired > 0 {
					ref[k].live = false
				}
			}
		}
	}
	tie := ref[0].live && ref[1].live && ref[0].sec == ref[1].sec && ref[0].nsec == ref[1].nsec
	rt.Cover(tie, "C04.two_live_entries_with_equal_deadlines")
}
