package distributed

import (
	rt "github.com/vx-labs/wasp/v4/zzsymxrt"
)

// symxC10Fresh: a fresh node that merges A's full-state snapshot lists exactly what A lists.
func symxC10Fresh() {
	ops := rt.Param("ops", 3)
	symxInstallClock()
	symxNow = 10
	A, B := symxNewNode(1), symxNewNode(2)
	for step := 0; step < ops; step++ {
		symxNow += 10
		symxLocalOp(A, 1, step)
	}
	va := A.view()
	B.st.MergeRemoteState(A.st.LocalState(true), true)
	rt.Assert(symxSameView(va, B.view()), "C10.fresh_node_lists_what_the_sender_lists")
	rt.Cover(va.sessN >= 2, "C10.snapshot_with_two_sessions")
	rt.Cover(va.subsN >= 2, "C10.snapshot_with_two_subscriptions")
	rt.Cover(va.retN >= 2, "C10.snapshot_with_two_retained")
}

// symxC10Lagging: B saw an arbitrary subset of A's gossip (the rest was lost) and may have made
// one change of its own; after snapshots travelled in both directions both list the same.
func symxC10Lagging() {
	ops := rt.Param("ops", 3)
	symxInstallClock()
	symxNow = 10
	A, B := symxNewNode(1), symxNewNode(2)
	lost := false
	for step := 0; step < ops; step++ {
		symxNow += 10
		symxLocalOp(A, 1, step)
		payloads := rt.Drain(A.q)
		if rt.Bool("lost") {
			lost = true
			continue
		}
		for _, p := range payloads {
			B.st.NotifyMsg(p)
		}
	}
	bWrote := rt.Bool("b_writes")
	if bWrote {
		symxNow += 10
		symxLocalOp(B, 2, 6)
		rt.Drain(B.q) // lost as well
	}
	B.st.MergeRemoteState(A.st.LocalState(true), true)
	if !bWrote {
		// B only ever saw part of A's history: one snapshot from A is enough to catch up,
		// additions and removals alike
		rt.Assert(symxSameView(A.view(), B.view()), "C10.one_snapshot_brings_a_pure_follower_up_to_date")
	}
	A.st.MergeRemoteState(B.st.LocalState(true), true)
	rt.Assert(symxSameView(A.view(), B.view()), "C10.both_directions_make_nodes_agree")
	rt.Cover(lost, "C10.some_gossip_lost")
}
