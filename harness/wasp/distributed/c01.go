package distributed

import (
	rt "github.com/vx-labs/wasp/v4/zzsymxrt"
)

// symxSigma constrains a byte to the alphabet: letters a,b (topic) plus '+', '#' (filters), and '/'.
func symxLetters(b []byte, wild bool) {
	for _, c := range b {
		if wild {
			rt.Assume(c == 'a' || c == 'b' || c == '/' || c == '+' || c == '#')
		} else {
			rt.Assume(c == 'a' || c == 'b' || c == '/')
		}
	}
}

// symxLevels splits on every '/', keeping empty levels (MQTT 3.1.1: every separator delimits a level).
func symxLevels(s []byte) [][]byte {
	var out [][]byte
	start := 0
	for k := 0; k < len(s); k++ {
		if s[k] == '/' {
			out = append(out, s[start:k])
			start = k + 1
		}
	}
	return append(out, s[start:])
}

// symxValidFilter: '#' only as a whole last level, '+' only as a whole level.
func symxValidFilter(levels [][]byte) bool {
	for k, l := range levels {
		for _, c := range l {
			if c == '#' && (len(l) != 1 || k != len(levels)-1) {
				return false
			}
			if c == '+' && len(l) != 1 {
				return false
			}
		}
	}
	return true
}

func symxHasEmptyLevel(levels [][]byte) bool {
	for _, l := range levels {
		if len(l) == 0 {
			return true
		}
	}
	return false
}

func symxEqualBytes(a, b []byte) bool {
	if len(a) != len(b) {
		return false
	}
	for k := range a {
		if a[k] != b[k] {
			return false
		}
	}
	return true
}

// symxMqttMatch is the reference: MQTT 3.1.1 section 4.7 matching of a filter against a topic name.
func symxMqttMatch(filter, topic [][]byte) bool {
	for k, fl := range filter {
		if len(fl) == 1 && fl[0] == '#' {
			return true // the parent level and everything below it
		}
		if k >= len(topic) {
			return false
		}
		if len(fl) == 1 && fl[0] == '+' {
			continue
		}
		if !symxEqualBytes(fl, topic[k]) {
			return false
		}
	}
	return len(filter) == len(topic)
}

// symxC01A: k symbolic valid filters subscribed by k sessions, one symbolic topic; the set of
// sessions returned for the topic must be exactly the set whose filter matches under MQTT rules.
func symxC01A() {
	k := rt.Param("filters", 1)
	L := rt.Param("len", 4)
	symxInstallClock()
	symxNow = 10
	n := symxNewNode(1)
	sessions := []string{"s0", "s1", "s2"}
	filters := make([][][]byte, k)
	emptyLevel := false
	for f := 0; f < k; f++ {
		fl := int(rt.Int("flen", 1, int64(L)))
		raw := rt.Bytes("filter", fl)
		symxLetters(raw, true)
		filters[f] = symxLevels(raw)
		rt.Assume(symxValidFilter(filters[f]))
		emptyLevel = emptyLevel || symxHasEmptyLevel(filters[f])
		symxNow++
		err := n.st.Subscriptions().Create(sessions[f], append([]byte("m/"), raw...), 1)
		rt.Assert(err == nil, "C01.subscribe_accepted")
	}
	tl := int(rt.Int("tlen", 1, int64(L)))
	traw := rt.Bytes("topic", tl)
	symxLetters(traw, false)
	topic := symxLevels(traw)
	emptyLevel = emptyLevel || symxHasEmptyLevel(topic)
	got := n.st.Subscriptions().ByPattern(append([]byte("m/"), traw...))
	var count [3]int
	for _, s := range got {
		for f := 0; f < k; f++ {
			if s.SessionID == sessions[f] {
				count[f]++
			}
		}
	}
	kf := rt.Known("KF-C01-2") && emptyLevel
	wrong := false
	for f := 0; f < k; f++ {
		want := 0
		if symxMqttMatch(filters[f], topic) {
			want = 1
		}
		if count[f] != want {
			wrong = true
		}
	}
	rt.Assert(!wrong || kf, "C01.recipients_are_exactly_the_matching_filters")
	rt.Assert(len(got) <= k, "C01.no_foreign_recipient")
	rt.Report("KF-C01-2", wrong && emptyLevel)
	last := filters[0][len(filters[0])-1]
	if L >= 3 {
		rt.Cover(len(last) == 1 && last[0] == '#' && len(filters[0]) == len(topic)+1 && !emptyLevel && count[0] == 1, "C01.hash_matches_parent_level")
		rt.Cover(!emptyLevel && count[0] == 1 && len(topic) >= 2, "C01.multi_level_match")
	}
}

// symxC01B: whether a filter matches depends only on the active set, not on the history of
// subscribe / unsubscribe / re-subscribe operations that led to it (including trie pruning).
// Filters and topic are solver-chosen from prefix-related fixed lists; the history is symbolic.
func symxC01B() {
	ops := rt.Param("ops", 3)
	symxInstallClock()
	symxNow = 10
	n := symxNewNode(1)
	sessions := []string{"s0", "s1"}
	fixedFilters := []string{"a", "a/b", "+/b", "a/#", "#", "a/b/c"}
	fixedTopics := []string{"a", "a/b", "b", "b/b", "a/b/c"}
	var raws [2][]byte
	var filters [2][][]byte
	fa := int(rt.Int("filterA", 0, int64(len(fixedFilters)-1)))
	fb := int(rt.Int("filterB", 0, int64(len(fixedFilters)-1)))
	rt.Assume(fa < fb)
	raws[0], raws[1] = []byte(fixedFilters[fa]), []byte(fixedFilters[fb])
	filters[0], filters[1] = symxLevels(raws[0]), symxLevels(raws[1])
	var active [2][2]bool // session x filter
	all := 0
	// the recipients of every topic are resolved after every operation, not only at the end: what an
	// earlier resolution (an earlier publish on the same topic) saw must not stick
	check := func() {
		all = 0
		for s := 0; s < 2; s++ {
			for f := 0; f < 2; f++ {
				if active[s][f] {
					all++
				}
			}
		}
		rt.Assert(len(n.st.Subscriptions().All()) == all, "C01.history.listing_is_the_active_set")
		for _, ts := range fixedTopics {
			topic := symxLevels([]byte(ts))
			got := n.st.Subscriptions().ByPattern(append([]byte("m/"), ts...))
			for s := 0; s < 2; s++ {
				want, have := 0, 0
				for f := 0; f < 2; f++ {
					if active[s][f] && symxMqttMatch(filters[f], topic) {
						want++
					}
				}
				for _, g := range got {
					if g.SessionID == sessions[s] {
						have++
					}
				}
				rt.Assert(want == have, "C01.history.recipients_depend_only_on_active_set")
			}
		}
	}
	check()
	for step := 0; step < ops; step++ {
		symxNow++
		s, f := int(rt.Int("sess", 0, 1)), int(rt.Int("fidx", 0, 1))
		if rt.Bool("subscribe") {
			n.st.Subscriptions().Create(sessions[s], append([]byte("m/"), raws[f]...), 1)
			active[s][f] = true
		} else {
			n.st.Subscriptions().Delete(sessions[s], append([]byte("m/"), raws[f]...))
			active[s][f] = false
		}
		check()
	}
	rt.Cover(all == 0 && ops >= 2, "C01.history.everything_unsubscribed_again")
}
