package distributed

import (
	rt "github.com/vx-labs/wasp/v4/zzsymxrt"
)

// symxC17Lookup: the client-identifier lookup used for takeover, keep-alive and teardown
// resolves an identifier inside its mount point only, whatever order the sessions map is
// iterated in (the iteration start is a solver variable for this harness).
func symxC17Lookup() {
	symxInstallClock()
	symxNow = 10
	n := symxNewNode(1)
	ids := []string{"s1", "s2", "s3"}
	cids := []string{"c", "d"}
	mps := []string{"m", "n"}
	var cid, mp [3]int
	var live [3]bool
	for k := range ids {
		cid[k], mp[k] = int(rt.Int("client", 0, 1)), int(rt.Int("tenant", 0, 1))
		for j := 0; j < k; j++ {
			// one live session per (mount point, client identifier): guaranteed by the takeover logic
			rt.Assume(cid[j] != cid[k] || mp[j] != mp[k])
		}
		symxNow++
		rt.Assert(n.st.SessionMetadatas().Create(ids[k], cids[cid[k]], 1, nil, mps[mp[k]]) == nil, "C17.lookup.created")
		live[k] = true
	}
	if rt.Bool("one_ended") {
		k := int(rt.Int("ended", 0, 2))
		symxNow++
		n.st.SessionMetadatas().Delete(ids[k])
		live[k] = false
	}
	qc, qm := int(rt.Int("query_client", 0, 1)), int(rt.Int("query_tenant", 0, 1))
	got, err := n.st.SessionMetadatas().ByClientID(mps[qm], cids[qc])
	want := -1
	for k := range ids {
		if live[k] && cid[k] == qc && mp[k] == qm {
			want = k
		}
	}
	if want >= 0 {
		rt.Assert(err == nil && got.SessionID == ids[want], "C17.lookup.resolves_inside_the_mount_point")
	} else {
		rt.Assert(err != nil, "C17.lookup.unknown_in_this_mount_point")
	}
	shared := false
	for a := 0; a < 3; a++ {
		for b := a + 1; b < 3; b++ {
			if live[a] && live[b] && cid[a] == cid[b] {
				shared = true
			}
		}
	}
	rt.Cover(shared && want >= 0, "C17.lookup.identifier_shared_across_tenants")
}
