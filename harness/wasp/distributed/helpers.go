package distributed

import (
	"github.com/golang/protobuf/proto"
	"github.com/hashicorp/memberlist"
	"github.com/vx-labs/mqtt-protocol/packet"
	"github.com/vx-labs/wasp/v4/wasp/api"
	"github.com/vx-labs/wasp/v4/wasp/audit"
	rt "github.com/vx-labs/wasp/v4/zzsymxrt"
)

type symxNode struct {
	st *state
	q  *memberlist.TransmitLimitedQueue
}

func symxNewNode(peer uint64) *symxNode {
	q := &memberlist.TransmitLimitedQueue{RetransmitMult: 1, NumNodes: func() int { return 1 }}
	return &symxNode{st: NewState(peer, q, audit.NoneRecorder()).(*state), q: q}
}

// symxClock installs a clock the harness controls (the package variable `clock` is what every local write reads).
var symxNow int64

func symxInstallClock() { clock = func() int64 { return symxNow } }

var (
	symxSessionIDs = []string{"s", "t"}
	symxPatterns   = []string{"m/a", "m/b"}
	symxTopics     = []string{"m/x", "m/y"}
	symxTags       = []string{"c0", "c1", "c2", "c3", "c4", "c5", "c6", "c7"}
)

// an update as it travels in a broadcast
type symxUpdate struct {
	kind   int // 0 session, 1 subscription, 2 retained
	key    int
	key2   int // subscription: pattern index
	la, ld int64
	tag    int
}

func symxArbUpdate(kind int, tag int, tmax int64) symxUpdate {
	u := symxUpdate{kind: kind, tag: tag}
	u.key = int(rt.Int("key", 0, 1))
	if kind == 1 {
		u.key2 = int(rt.Int("pat", 0, 1))
	}
	u.la, u.ld = rt.Int("la", 0, tmax), rt.Int("ld", 0, tmax)
	rt.Assume(u.la != u.ld)
	return u
}

func (u symxUpdate) ts() int64 {
	if u.la > u.ld {
		return u.la
	}
	return u.ld
}

func (u symxUpdate) added() bool { return u.la > 0 && u.la > u.ld }

func (u symxUpdate) sameKey(v symxUpdate) bool {
	return u.kind == v.kind && u.key == v.key && u.key2 == v.key2
}

func symxEvent(us ...symxUpdate) []byte {
	ev := &api.StateBroadcastEvent{}
	for _, u := range us {
		switch u.kind {
		case 0:
			ev.SessionMetadatas = append(ev.SessionMetadatas, &api.SessionMetadatas{
				SessionID: symxSessionIDs[u.key], ClientID: symxTags[u.tag], Peer: 7, MountPoint: "m",
				LastAdded: u.la, LastDeleted: u.ld})
		case 1:
			ev.Subscriptions = append(ev.Subscriptions, &api.Subscription{
				SessionID: symxSessionIDs[u.key], Pattern: []byte(symxPatterns[u.key2]), Peer: 7, QoS: int32(u.tag),
				LastAdded: u.la, LastDeleted: u.ld})
		case 2:
			ev.RetainedMessages = append(ev.RetainedMessages, &api.RetainedMessage{
				Publish:   &packet.Publish{Header: &packet.Header{Retain: true}, Topic: []byte(symxTopics[u.key]), Payload: []byte(symxTags[u.tag])},
				LastAdded: u.la, LastDeleted: u.ld})
		}
	}
	buf, err := proto.Marshal(ev)
	if err != nil {
		panic(err)
	}
	return buf
}

// symxView is everything a user can list on a node, in a canonical, key-indexed form
// ("" = not visible).
type symxView struct {
	sess  [2]string   // session id -> client id
	peer  [2]uint64   // session id -> hosting peer
	subs  [2][2]int32 // (session, pattern) -> qos+1 ; 0 = absent
	subsN int         // number of listed subscriptions (detects duplicates)
	sessN int
	ret   [2]string // topic -> payload
	retN  int       // number of retained messages under m/#
	byPat [2]int    // ByPattern(pattern) count
}

func symxIdx(list []string, s string) int {
	for k, x := range list {
		if x == s {
			return k
		}
	}
	return -1
}

func (n *symxNode) view() symxView {
	var v symxView
	for _, s := range n.st.SessionMetadatas().All() {
		v.sessN++
		if k := symxIdx(symxSessionIDs, s.SessionID); k >= 0 {
			v.sess[k] = s.ClientID
			v.peer[k] = s.Peer
		}
	}
	for _, s := range n.st.Subscriptions().All() {
		v.subsN++
		k, p := symxIdx(symxSessionIDs, s.SessionID), symxIdx(symxPatterns, string(s.Pattern))
		if k >= 0 && p >= 0 {
			v.subs[k][p] = s.QoS + 1
		}
	}
	for p := range symxPatterns {
		v.byPat[p] = len(n.st.Subscriptions().ByPattern([]byte(symxPatterns[p])))
	}
	for k := range symxTopics {
		msgs, err := n.st.Topics().Get([]byte(symxTopics[k]))
		if err == nil && len(msgs) == 1 {
			v.ret[k] = string(msgs[0].Publish.Payload)
		} else if err != nil || len(msgs) > 1 {
			v.ret[k] = "?"
		}
	}
	all, _ := n.st.Topics().Get([]byte("m/#"))
	v.retN = len(all)
	return v
}

func symxSameView(a, b symxView) bool { return a == b }
