package distributed

import (
	"github.com/vx-labs/mqtt-protocol/packet"
	rt "github.com/vx-labs/wasp/v4/zzsymxrt"
)

var symxFreshSessionsOnly bool

// symxLocalOp performs one symbolic local mutation on node n (peer id `self`).
// It returns the op kind so that covers can talk about it.
func symxLocalOp(n *symxNode, self uint64, tag int) int {
	kind := int(rt.Int("op", 0, 8))
	switch kind {
	case 0:
		id := symxSessionIDs[rt.Int("sess", 0, 1)]
		if symxFreshSessionsOnly {
			_, seen := n.st.sessionMetadatas.sessions[id]
			rt.Assume(!seen)
		}
		n.st.SessionMetadatas().Create(id, symxTags[tag], 1, nil, "m")
	case 1:
		n.st.SessionMetadatas().Delete(symxSessionIDs[rt.Int("sess", 0, 1)])
	case 2:
		if rt.Bool("self") {
			n.st.SessionMetadatas().DeletePeer(self)
		} else {
			n.st.SessionMetadatas().DeletePeer(7)
		}
	case 3:
		n.st.Subscriptions().Create(symxSessionIDs[rt.Int("sess", 0, 1)], []byte(symxPatterns[rt.Int("pat", 0, 1)]), int32(tag))
	case 4:
		n.st.Subscriptions().Delete(symxSessionIDs[rt.Int("sess", 0, 1)], []byte(symxPatterns[rt.Int("pat", 0, 1)]))
	case 5:
		n.st.Subscriptions().DeleteSession(symxSessionIDs[rt.Int("sess", 0, 1)])
	case 6:
		if rt.Bool("self") {
			n.st.Subscriptions().DeletePeer(self)
		} else {
			n.st.Subscriptions().DeletePeer(7)
		}
	case 7:
		n.st.Topics().Set(&packet.Publish{Header: &packet.Header{Retain: true}, Topic: []byte(symxTopics[rt.Int("topic", 0, 1)]), Payload: []byte(symxTags[tag])})
	case 8:
		n.st.Topics().Delete([]byte(symxTopics[rt.Int("topic", 0, 1)]))
	}
	return kind
}

// symxC09: every local change on A is conveyed completely by the broadcasts it queues.
// A performs `ops` symbolic operations (clock strictly increasing); after each one its queued
// payloads are delivered to B, and B must list exactly what A lists.
func symxC09() {
	ops := rt.Param("ops", 3)
	symxInstallClock()
	symxNow = 10
	A, B := symxNewNode(1), symxNewNode(2)
	bulkMany := false
	// the gossip layer may pick the broadcasts up after every change or only after several
	late := rt.Bool("drain_only_at_the_end")
	for step := 0; step < ops; step++ {
		symxNow += 10
		before := A.view()
		kind := symxLocalOp(A, 1, step)
		after := A.view()
		if !late || step == ops-1 {
			payloads := rt.Drain(A.q)
			if !symxSameView(before, after) {
				rt.Assert(len(payloads) >= 1, "C09.visible_change_is_broadcast")
			}
			for _, p := range payloads {
				B.st.NotifyMsg(p)
			}
			rt.Assert(symxSameView(after, B.view()), "C09.peer_lists_the_same_after_broadcast")
		}
		if (kind == 2 && before.sessN-after.sessN >= 2) || ((kind == 5 || kind == 6) && before.subsN-after.subsN >= 2) {
			bulkMany = true
		}
	}
	rt.Cover(bulkMany, "C09.bulk_change_touching_several_entries")
}

// symxC09Lagging: a local write stamped by a clock that may be behind entries already merged
// from another node. A and B start from the same merged remote updates; A writes locally with
// an arbitrary clock reading; after delivery of A's broadcasts both must list the same.
func symxC09Lagging() {
	tmax := int64(rt.Param("tmax", 4))
	kind := int(rt.Int("prekind", 0, 2))
	symxInstallClock()
	A, B := symxNewNode(1), symxNewNode(2)
	npre := rt.Param("pre", 1)
	symxNow = rt.Int("clock", 1, tmax)
	for k := 0; k < npre; k++ {
		u := symxArbUpdate(kind, 4+k, tmax)
		// assumption of C08/C09: different updates to one key never carry the same timestamp
		rt.Assume(symxNow != u.la && symxNow != u.ld)
		buf := symxEvent(u)
		A.st.NotifyMsg(buf)
		B.st.NotifyMsg(buf)
	}
	rt.Assert(symxSameView(A.view(), B.view()), "C09.lagging.same_pre_state")
	// session ids are fresh UUIDs: a Create never targets an id the node has already seen
	symxFreshSessionsOnly = true
	defer func() { symxFreshSessionsOnly = false }()
	symxLocalOp(A, 1, 0)
	for _, p := range rt.Drain(A.q) {
		B.st.NotifyMsg(p)
	}
	rt.Assert(symxSameView(A.view(), B.view()), "C09.lagging.origin_and_peer_agree")
}

func symxPar(a, b func()) {
	done := make(chan struct{}, 2)
	go func() { a(); done <- struct{}{} }()
	go func() { b(); done <- struct{}{} }()
	<-done
	<-done
}

// symxC20State: a local mutator beside a gossip merge, and beside a listing, on the replicated state.
func symxC20State() {
	symxInstallClock()
	symxNow = 50
	A := symxNewNode(1)
	remote := symxEvent(symxUpdate{kind: 1, key: 1, key2: 1, la: 40, tag: 2}, symxUpdate{kind: 0, key: 1, la: 41, tag: 3}, symxUpdate{kind: 2, key: 1, la: 42, tag: 4})
	switch rt.Int("pair", 0, 4) {
	case 4: // a local removal beside the merge of a newer registration of the same session
		A.st.NotifyMsg(symxEvent(symxUpdate{kind: 0, key: 0, la: 40, tag: 1}))
		newer := symxEvent(symxUpdate{kind: 0, key: 0, la: 60, tag: 5})
		symxPar(func() { A.st.SessionMetadatas().Delete("s") }, func() { A.st.NotifyMsg(newer) })
		v := A.view()
		rt.Assert(v.sess[0] == "c5", "C20.state.newer_registration_survives_a_concurrent_older_removal")
	case 0:
		symxPar(func() { A.st.Subscriptions().Create("s", []byte("m/a"), 1) }, func() { A.st.NotifyMsg(remote) })
		v := A.view()
		rt.Assert(v.subs[0][0] == 2 && v.subs[1][1] == 3, "C20.state.local_subscription_and_merged_one_both_listed")
		rt.Assert(v.sess[1] == "c3" && v.ret[1] == "c4", "C20.state.merged_session_and_retained_listed")
	case 1:
		symxPar(func() { A.st.SessionMetadatas().Create("s", "c1", 1, nil, "m") }, func() { A.st.NotifyMsg(remote) })
		v := A.view()
		rt.Assert(v.sess[0] == "c1" && v.sess[1] == "c3", "C20.state.local_session_and_merged_one_both_listed")
	case 2:
		A.st.Subscriptions().Create("s", []byte("m/a"), 1)
		var n int
		symxPar(func() { A.st.Subscriptions().Create("t", []byte("m/a"), 1) }, func() { n = len(A.st.Subscriptions().ByPattern([]byte("m/a"))) })
		rt.Assert(n == 1 || n == 2, "C20.state.listing_is_a_consistent_snapshot")
	case 3:
		symxPar(func() {
			A.st.Topics().Set(&packet.Publish{Header: &packet.Header{Retain: true}, Topic: []byte("m/x"), Payload: []byte("c1")})
		}, func() { A.st.NotifyMsg(remote) })
		v := A.view()
		rt.Assert(v.ret[0] == "c1" && v.ret[1] == "c4", "C20.state.local_retained_and_merged_one_both_listed")
	}
}
