package distributed

import (
	"github.com/golang/protobuf/proto"
	"github.com/vx-labs/mqtt-protocol/packet"
	"github.com/vx-labs/wasp/v4/wasp/api"
	rt "github.com/vx-labs/wasp/v4/zzsymxrt"
)

var symxFreshSessionsOnly bool

// symxLocalOp performs one symbolic local mutation on node n (peer id `self`).
// It returns the op kind so that covers can talk about it.
func symxLocalOp(n *symxNode, self uint64, tag int) int {
	kind := int(rt.Int("op", 0, 8))
	switch kind {
	case 0:
		id := symxSessionIDs[rt.Int("sess", 0, 1)]
		if symxFreshSessionsOnly {
			_, seen := n.st.sessionMetadatas.sessions[id]
			rt.Assume(!seen)
		}
		n.st.SessionMetadatas().Create(id, symxTags[tag], 1, nil, "m")
	case 1:
		n.st.SessionMetadatas().Delete(symxSessionIDs[rt.Int("sess", 0, 1)])
	case 2:
		if rt.Bool("self") {
			n.st.SessionMetadatas().DeletePeer(self)
		} else {
			n.st.SessionMetadatas().DeletePeer(7)
		}
	case 3:
		n.st.Subscriptions().Create(symxSessionIDs[rt.Int("sess", 0, 1)], []byte(symxPatterns[rt.Int("pat", 0, 1)]), int32(tag))
	case 4:
		n.st.Subscriptions().Delete(symxSessionIDs[rt.Int("sess", 0, 1)], []byte(symxPatterns[rt.Int("pat", 0, 1)]))
	case 5:
		n.st.Subscriptions().DeleteSession(symxSessionIDs[rt.Int("sess", 0, 1)])
	case 6:
		if rt.Bool("self") {
			n.st.Subscriptions().DeletePeer(self)
		} else {
			n.st.Subscriptions().DeletePeer(7)
		}
	case 7:
		n.st.Topics().Set(&packet.Publish{Header: &packet.Header{Retain: true}, Topic: []byte(symxTopics[rt.Int("topic", 0, 1)]), Payload: []byte(symxTags[tag])})
	case 8:
		n.st.Topics().Delete([]byte(symxTopics[rt.Int("topic", 0, 1)]))
	}
	return kind
}

// symxC09: every local change on A is conveyed completely by the broadcasts it queues.
// A performs `ops` symbolic operations (clock strictly increasing); after each one its queued
// payloads are delivered to B, and B must list exactly what A lists.
func symxC09() {
	ops := rt.Param("ops", 3)
	symxInstallClock()
	symxNow = 10
	A, B := symxNewNode(1), symxNewNode(2)
	bulkMany := false
	// the gossip layer may pick the broadcasts up after every change or only after several
	late := rt.Bool("drain_only_at_the_end")
	for step := 0; step < ops; step++ {
		symxNow += 10
		before := A.view()
		kind := symxLocalOp(A, 1, step)
		after := A.view()
		if !late || step == ops-1 {
			payloads := rt.Drain(A.q)
			if !symxSameView(before, after) {
				rt.Assert(len(payloads) >= 1, "C09.visible_change_is_broadcast")
			}
			for _, p := range payloads {
				B.st.NotifyMsg(p)
			}
			rt.Assert(symxSameView(after, B.view()), "C09.peer_lists_the_same_after_broadcast")
		}
		if (kind == 2 && before.sessN-after.sessN >= 2) || ((kind == 5 || kind == 6) && before.subsN-after.subsN >= 2) {
			bulkMany = true
		}
	}
	rt.Cover(bulkMany, "C09.bulk_change_touching_several_entries")
}

// symxC09Lagging: a local write stamped by a clock that may be behind entries already merged
// from another node. A and B start from the same merged remote updates; A writes locally with
// an arbitrary clock reading; after delivery of A's broadcasts both must list the same.
func symxC09Lagging() {
	tmax := int64(rt.Param("tmax", 4))
	kind := int(rt.Int("prekind", 0, 2))
	symxInstallClock()
	A, B := symxNewNode(1), symxNewNode(2)
	npre := rt.Param("pre", 1)
	symxNow = rt.Int("clock", 1, tmax)
	for k := 0; k < npre; k++ {
		u := symxArbUpdate(kind, 4+k, tmax)
		// assumption of C08/C09: different updates to one key never carry the same timestamp
		rt.Assume(symxNow != u.la && symxNow != u.ld)
		buf := symxEvent(u)
		A.st.NotifyMsg(buf)
		B.st.NotifyMsg(buf)
	}
	rt.Assert(symxSameView(A.view(), B.view()), "C09.lagging.same_pre_state")
	// session ids are fresh UUIDs: a Create never targets an id the node has already seen
	symxFreshSessionsOnly = true
	defer func() { symxFreshSessionsOnly = false }()
	symxLocalOp(A, 1, 0)
	for _, p := range rt.Drain(A.q) {
		B.st.NotifyMsg(p)
	}
	rt.Assert(symxSameView(A.view(), B.view()), "C09.lagging.origin_and_peer_agree")
}

func symxPar(a, b func()) {
	done := make(chan struct{}, 2)
	go func() { a(); done <- struct{}{} }()
	go func() { b(); done <- struct{}{} }()
	<-done
	<-done
}

// symxC20State: a local mutator beside a gossip merge, and beside a listing, on the replicated state.
func symxC20State() {
	symxInstallClock()
	symxNow = 50
	A := symxNewNode(1)
	remote := symxEvent(symxUpdate{kind: 1, key: 1, key2: 1, la: 40, tag: 2}, symxUpdate{kind: 0, key: 1, la: 41, tag: 3}, symxUpdate{kind: 2, key: 1, la: 42, tag: 4})
	switch rt.Int("pair", 0, 4) {
	case 4: // a local removal beside the merge of a newer registration of the same session
		A.st.NotifyMsg(symxEvent(symxUpdate{kind: 0, key: 0, la: 40, tag: 1}))
		newer := symxEvent(symxUpdate{kind: 0, key: 0, la: 60, tag: 5})
		symxPar(func() { A.st.SessionMetadatas().Delete("s") }, func() { A.st.NotifyMsg(newer) })
		v := A.view()
		rt.Assert(v.sess[0] == "c5", "C20.state.newer_registration_survives_a_concurrent_older_removal")
	case 0:
		symxPar(func() { A.st.Subscriptions().Create("s", []byte("m/a"), 1) }, func() { A.st.NotifyMsg(remote) })
		v := A.view()
		rt.Assert(v.subs[0][0] == 2 && v.subs[1][1] == 3, "C20.state.local_subscription_and_merged_one_both_listed")
		rt.Assert(v.sess[1] == "c3" && v.ret[1] == "c4", "C20.state.merged_session_and_retained_listed")
	case 1:
		symxPar(func() { A.st.SessionMetadatas().Create("s", "c1", 1, nil, "m") }, func() { A.st.NotifyMsg(remote) })
		v := A.view()
		rt.Assert(v.sess[0] == "c1" && v.sess[1] == "c3", "C20.state.local_session_and_merged_one_both_listed")
	case 2:
		A.st.Subscriptions().Create("s", []byte("m/a"), 1)
		var n int
		symxPar(func() { A.st.Subscriptions().Create("t", []byte("m/a"), 1) }, func() { n = len(A.st.Subscriptions().ByPattern([]byte("m/a"))) })
		rt.Assert(n == 1 || n == 2, "C20.state.listing_is_a_consistent_snapshot")
	case 3:
		symxPar(func() {
			A.st.Topics().Set(&packet.Publish{Header: &packet.Header{Retain: true}, Topic: []byte("m/x"), Payload: []byte("c1")})
		}, func() { A.st.NotifyMsg(remote) })
		v := A.view()
		rt.Assert(v.ret[0] == "c1" && v.ret[1] == "c4", "C20.state.local_retained_and_merged_one_both_listed")
	}
}

// symxC09Bulk: bulk changes over many entries. The node owns a solver-chosen number of sessions (or
// of subscriptions, one per session) with UUID-sized identifiers - enough for the encoded bulk
// event to pass any size a broadcast might be cut at - and removes them all at once (DeletePeer, as
// when it shuts down); the peer that heard every broadcast must list exactly what the origin lists.
func symxC09Bulk() {
	max := rt.Param("entries", 20)
	symxInstallClock()
	symxNow = 10
	A, B := symxNewNode(1), symxNewNode(2)
	n := int(rt.Int("entries_owned_by_the_peer", 0, int64(max)))
	table := rt.Int("table", 0, 1)
	id := func(k int) string {
		return "3f2b8c1e-7a54-4d09-9e61-0000000000" + string([]byte{byte('a' + k/26), byte('a' + k%26)})
	}
	deliver := func() int {
		payloads := rt.Drain(A.q)
		for _, p := range payloads {
			B.st.NotifyMsg(p)
		}
		return len(payloads)
	}
	for k := 0; k < n; k++ {
		symxNow++
		if table == 0 {
			A.st.SessionMetadatas().Create(id(k), "client-of-"+id(k), symxNow, nil, "m")
		} else {
			A.st.Subscriptions().Create(id(k), []byte("m/sensors/+/temperature"), 1)
		}
		deliver()
	}
	// one entry of another node, which must survive
	symxNow++
	B.st.SessionMetadatas().Create("other", "oc", symxNow, nil, "m")
	B.st.Subscriptions().Create("other", []byte("m/a"), 0)
	for _, p := range rt.Drain(B.q) {
		A.st.NotifyMsg(p)
	}
	same := func(label string) {
		as, bs := A.st.SessionMetadatas().All(), B.st.SessionMetadatas().All()
		rt.Assert(len(as) == len(bs), label)
		for _, x := range as {
			found := false
			for _, y := range bs {
				if x.SessionID == y.SessionID {
					found = true
				}
			}
			rt.Assert(found, label)
		}
		au, bu := A.st.Subscriptions().All(), B.st.Subscriptions().All()
		rt.Assert(len(au) == len(bu), label)
		for _, x := range au {
			found := false
			for _, y := range bu {
				if x.SessionID == y.SessionID && string(x.Pattern) == string(y.Pattern) {
					found = true
				}
			}
			rt.Assert(found, label)
		}
	}
	same("C09.bulk.peer_lists_the_same_before_the_removal")
	if table == 0 {
		rt.Assert(len(A.st.SessionMetadatas().All()) == n+1, "C09.bulk.all_entries_listed")
	} else {
		rt.Assert(len(A.st.Subscriptions().All()) == n+1, "C09.bulk.all_entries_listed")
	}
	symxNow += 10
	if table == 0 {
		A.st.SessionMetadatas().DeletePeer(1)
	} else {
		A.st.Subscriptions().DeletePeer(1)
	}
	sent := deliver()
	rt.Assert(n == 0 || sent >= 1, "C09.visible_change_is_broadcast")
	same("C09.bulk.peer_lists_the_same_after_the_removal")
	rt.Assert(len(A.st.SessionMetadatas().All()) == 1 && len(A.st.Subscriptions().All()) == 1, "C09.bulk.only_the_other_nodes_entry_is_left")
	rt.Cover(n == max, "C09.bulk.largest_table")
}

// symxC09SizeModel validates the engine's model of proto.Size (used by symxC09Bulk to see encoded
// sizes) against the real library: the size of a bulk event with solver-chosen timestamps, peer,
// QoS, will and entry count is observed, and every explored witness is re-run natively, where the
// observation comes from the real golang/protobuf.
func symxC09SizeModel() {
	la, ld := rt.Int("last_added", 0, 1<<40), rt.Int("last_deleted", -5, 300)
	peer := uint64(rt.Int("peer", 0, 1<<62))
	n := int(rt.Int("entries", 0, 3))
	ev := &api.StateBroadcastEvent{}
	for k := 0; k < n; k++ {
		m := &api.SessionMetadatas{SessionID: "3f2b8c1e-7a54-4d09-9e61-00000000000" + string([]byte{byte('a' + k)}), ClientID: "c", Peer: peer, LastAdded: la, LastDeleted: ld, MountPoint: "m"}
		if k == 1 {
			m.LWT = &packet.Publish{Header: &packet.Header{Qos: int32(rt.Int("will_qos", 0, 2)), Retain: rt.Bool("will_retain")}, Topic: []byte("w"), Payload: make([]byte, 130)}
		}
		ev.SessionMetadatas = append(ev.SessionMetadatas, m)
	}
	if rt.Bool("with_subscription") {
		ev.Subscriptions = append(ev.Subscriptions, &api.Subscription{SessionID: "s", Pattern: []byte("m/a"), QoS: int32(rt.Int("sub_qos", 0, 2)), Peer: peer, LastAdded: la})
	}
	size := proto.Size(ev)
	steps := 0
	for _, x := range []int{0, 60, 64, 70, 130, 200, 260, 330, 400} {
		if size > x {
			steps++
		}
	}
	rt.Observe("size", size, steps)
	rt.Assert(size >= 0, "C09.size_model.defined")
	rt.Cover(size > 330, "C09.size_model.large_event")
}
