package distributed

import (
	rt "github.com/vx-labs/wasp/v4/zzsymxrt"
)

// symxC08 delivers the same N arbitrary updates of one kind to two replicas: replica A one at a
// time in index order, replica B in a symbolic order with symbolic duplication and batching.
// Both must list the same state, and for every key the visible value must be that of the
// update with the greatest timestamp (LWW), never resurrecting a removed entry.
func symxC08(kind int) {
	n := rt.Param("updates", 3)
	tmax := int64(rt.Param("tmax", 4))
	us := make([]symxUpdate, n)
	for k := range us {
		us[k] = symxArbUpdate(kind, k, tmax)
	}
	// assumption of the property: two different updates to the same key carry different timestamps
	for a := 0; a < n; a++ {
		for b := a + 1; b < n; b++ {
			rt.Assume(!us[a].sameKey(us[b]) || us[a].ts() != us[b].ts())
		}
	}
	A, B := symxNewNode(1), symxNewNode(2)
	for k := range us {
		A.st.NotifyMsg(symxEvent(us[k]))
	}
	// replica B: symbolic permutation (Lehmer code), optional batching and one duplicate delivery
	order := make([]int, 0, n)
	left := make([]int, n)
	for k := range left {
		left[k] = k
	}
	for len(left) > 0 {
		c := int(rt.Int("pick", 0, int64(len(left)-1)))
		order = append(order, left[c])
		left = append(left[:c], left[c+1:]...)
	}
	mode := rt.Int("delivery", 0, 2)
	switch mode {
	case 0: // one at a time
		for _, k := range order {
			B.st.NotifyMsg(symxEvent(us[k]))
		}
	case 1: // a single batch (full-state style), via MergeRemoteState
		batch := make([]symxUpdate, 0, n)
		for _, k := range order {
			batch = append(batch, us[k])
		}
		B.st.MergeRemoteState(symxEvent(batch...), true)
	case 2: // first two batched, the rest single, then the first one again (duplicate, late)
		B.st.NotifyMsg(symxEvent(us[order[0]], us[order[1]]))
		for _, k := range order[2:] {
			B.st.NotifyMsg(symxEvent(us[k]))
		}
		B.st.NotifyMsg(symxEvent(us[order[0]]))
	}
	va, vb := A.view(), B.view()
	rt.Assert(symxSameView(va, vb), "C08.replicas_converge")
	// LWW: per key, the winner is the update with the greatest timestamp
	for key := 0; key < 2; key++ {
		for key2 := 0; key2 < 2; key2++ {
			if kind != 1 && key2 > 0 {
				continue
			}
			win := -1
			for k := range us {
				if us[k].key == key && us[k].key2 == key2 && (win < 0 || us[k].ts() > us[win].ts()) {
					win = k
				}
			}
			visible, tag := false, 0
			if win >= 0 && us[win].added() {
				visible, tag = true, us[win].tag
			}
			switch kind {
			case 0:
				if visible {
					rt.Assert(va.sess[key] == symxTags[tag], "C08.sessions.lww_winner_visible")
				} else {
					rt.Assert(va.sess[key] == "", "C08.sessions.removed_or_absent_invisible")
				}
			case 1:
				if visible {
					rt.Assert(va.subs[key][key2] == int32(tag)+1, "C08.subscriptions.lww_winner_visible")
				} else {
					rt.Assert(va.subs[key][key2] == 0, "C08.subscriptions.removed_or_absent_invisible")
				}
			case 2:
				if visible {
					rt.Assert(va.ret[key] == symxTags[tag], "C08.retained.lww_winner_visible")
				} else {
					rt.Assert(va.ret[key] == "", "C08.retained.removed_or_absent_invisible")
				}
			}
		}
	}
	same := us[0].sameKey(us[1])
	rt.Cover(same && us[0].added() && !us[1].added() && us[1].ts() > us[0].ts(), "C08.remove_newer_than_add_same_key")
	rt.Cover(same && !us[0].added() && us[1].added() && us[1].ts() < us[0].ts(), "C08.older_add_after_newer_remove")
}

func symxC08Sessions()      { symxC08(0) }
func symxC08Subscriptions() { symxC08(1) }
func symxC08Retained()      { symxC08(2) }
