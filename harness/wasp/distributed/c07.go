package distributed

import (
	"github.com/vx-labs/mqtt-protocol/packet"
	rt "github.com/vx-labs/wasp/v4/zzsymxrt"
)

// symxC07Match: the retained store against the MQTT matcher. Up to two retained topics with
// solver-chosen names (bytes over {a,b,/}), optionally one of them cleared again, then a
// solver-chosen valid filter (bytes over {a,b,+,#,/}): Get(filter) returns exactly the retained
// messages whose topic matches, each once, with its last payload.
func symxC07Match() {
	L := rt.Param("len", 3)
	symxInstallClock()
	symxNow = 10
	n := symxNewNode(1)
	var names [2][]byte
	var levels [2][][]byte
	var live [2]bool
	emptyLevel := false
	for k := 0; k < 2; k++ {
		tl := int(rt.Int("tlen", 1, int64(L)))
		names[k] = rt.Bytes("topic", tl)
		symxLetters(names[k], false)
		levels[k] = symxLevels(names[k])
		emptyLevel = emptyLevel || symxHasEmptyLevel(levels[k])
		if k == 1 {
			rt.Assume(!symxEqualBytes(names[0], names[1]))
		}
		symxNow++
		err := n.st.Topics().Set(&packet.Publish{Header: &packet.Header{Retain: true}, Topic: append([]byte("m/"), names[k]...), Payload: []byte(symxTags[k])})
		rt.Assert(err == nil, "C07.match.set_ok")
		live[k] = true
	}
	if rt.Bool("clear_one") {
		k := int(rt.Int("cleared", 0, 1))
		symxNow++
		rt.Assert(n.st.Topics().Delete(append([]byte("m/"), names[k]...)) == nil, "C07.match.clear_ok")
		live[k] = false
	}
	fl := int(rt.Int("flen", 1, int64(L)))
	fraw := rt.Bytes("filter", fl)
	symxLetters(fraw, true)
	filter := symxLevels(fraw)
	rt.Assume(symxValidFilter(filter))
	emptyLevel = emptyLevel || symxHasEmptyLevel(filter)
	got, err := n.st.Topics().Get(append([]byte("m/"), fraw...))
	rt.Assert(err == nil, "C07.match.get_ok")
	var seen [2]int
	foreign := 0
	for _, g := range got {
		hit := false
		for k := 0; k < 2; k++ {
			if string(g.Publish.Payload) == symxTags[k] {
				seen[k]++
				hit = true
			}
		}
		if !hit {
			foreign++
		}
	}
	wrong := foreign > 0
	for k := 0; k < 2; k++ {
		want := 0
		if live[k] && symxMqttMatch(filter, levels[k]) {
			want = 1
		}
		if seen[k] != want {
			wrong = true
		}
	}
	kf := rt.Known("KF-C07-1") && emptyLevel
	rt.Assert(!wrong || kf, "C07.match.replay_set_is_exactly_the_matching_retained_topics")
	rt.Report("KF-C07-1", wrong && emptyLevel)
	if L >= 3 {
		last := filter[len(filter)-1]
		rt.Cover(!emptyLevel && len(last) == 1 && last[0] == '#' && seen[0] == 1 && seen[1] == 1, "C07.match.hash_collects_two_topics")
	}
}
