package wasp

import (
	"bytes"
	"context"
	"errors"
	"io"
	"sync"
	"time"

	"github.com/hashicorp/memberlist"
	"github.com/vx-labs/commitlog/stream"
	"github.com/vx-labs/mqtt-protocol/decoder"
	"github.com/vx-labs/mqtt-protocol/encoder"
	"github.com/vx-labs/mqtt-protocol/packet"
	"github.com/vx-labs/wasp/v4/wasp/ack"
	"github.com/vx-labs/wasp/v4/wasp/audit"
	"github.com/vx-labs/wasp/v4/wasp/auth"
	"github.com/vx-labs/wasp/v4/wasp/distributed"
	"github.com/vx-labs/wasp/v4/wasp/sessions"
	"github.com/vx-labs/wasp/v4/wasp/transport"
	rt "github.com/vx-labs/wasp/v4/zzsymxrt"
	"go.uber.org/zap"
)

// ---- fake connection ----

type symxTimeout struct{}

func (symxTimeout) Error() string { return "i/o timeout" }
func (symxTimeout) Timeout() bool { return true }

type symxConn struct {
	mu        sync.Mutex
	in        []byte
	eof       bool
	timedOut  bool
	wake      chan struct{}
	out       []byte
	closed    bool
	deadlines []time.Time
	failWrite bool
}

func symxNewConn() *symxConn { return &symxConn{wake: make(chan struct{}, 64)} }

func (c *symxConn) Read(p []byte) (int, error) {
	for {
		c.mu.Lock()
		switch {
		case c.closed:
			c.mu.Unlock()
			return 0, errors.New("use of closed connection")
		case len(c.in) > 0:
			n := copy(p, c.in)
			c.in = c.in[n:]
			c.mu.Unlock()
			return n, nil
		case c.eof:
			c.mu.Unlock()
			return 0, io.EOF
		case c.timedOut:
			c.mu.Unlock()
			return 0, symxTimeout{}
		}
		c.mu.Unlock()
		<-c.wake
	}
}
func (c *symxConn) Write(p []byte) (int, error) {
	c.mu.Lock()
	defer c.mu.Unlock()
	if c.closed || c.failWrite {
		return 0, errors.New("write on closed connection")
	}
	c.out = append(c.out, p...)
	return len(p), nil
}
func (c *symxConn) Close() error {
	c.mu.Lock()
	c.closed = true
	c.mu.Unlock()
	c.wake <- struct{}{}
	return nil
}
func (c *symxConn) SetDeadline(t time.Time) error {
	c.mu.Lock()
	c.deadlines = append(c.deadlines, t)
	c.mu.Unlock()
	return nil
}
func (c *symxConn) SetReadDeadline(t time.Time) error  { return c.SetDeadline(t) }
func (c *symxConn) SetWriteDeadline(t time.Time) error { return nil }

func (c *symxConn) feed(b []byte) {
	c.mu.Lock()
	c.in = append(c.in, b...)
	c.mu.Unlock()
	c.wake <- struct{}{}
}
func (c *symxConn) feedEOF() {
	c.mu.Lock()
	c.eof = true
	c.mu.Unlock()
	c.wake <- struct{}{}
}
func (c *symxConn) timeout() {
	c.mu.Lock()
	c.timedOut = true
	c.mu.Unlock()
	c.wake <- struct{}{}
}

// written decodes everything the broker wrote to this connection with the real decoder.
func (c *symxConn) written() []packet.Packet {
	c.mu.Lock()
	buf := append([]byte(nil), c.out...)
	c.mu.Unlock()
	var out []packet.Packet
	r := bytes.NewReader(buf)
	d := decoder.New()
	for r.Len() > 0 {
		p, err := d.Decode(r)
		if err != nil || p == nil {
			break
		}
		out = append(out, p)
	}
	return out
}

// ---- fake message log ----

type symxLog struct {
	mu         sync.Mutex
	base       uint64
	entries    []*packet.Publish
	failAppend bool
	appends    int
	notify     chan struct{}
	// resume, when set before the consumer starts, holds the consumer "between two polls" (the real
	// commit log's consumer polls an idle log every 100 ms) until the harness closes it
	resume chan struct{}
}

func symxNewLog(base uint64) *symxLog { return &symxLog{base: base, notify: make(chan struct{}, 64)} }

func (l *symxLog) Close() error { return nil }
func (l *symxLog) Append(p *packet.Publish) error {
	l.mu.Lock()
	defer l.mu.Unlock()
	l.appends++
	if l.failAppend {
		return errors.New("log: append failed")
	}
	l.entries = append(l.entries, p)
	select {
	case l.notify <- struct{}{}:
	default:
	}
	return nil
}
func (l *symxLog) Get(offset uint64) (*packet.Publish, error) {
	l.mu.Lock()
	defer l.mu.Unlock()
	if offset < l.base || offset >= l.base+uint64(len(l.entries)) {
		return nil, errors.New("log: offset out of range")
	}
	return l.entries[offset-l.base], nil
}
func (l *symxLog) Consume(ctx context.Context, consumerName string, f func(uint64, *packet.Publish) error) error {
	next := l.base
	for {
		if l.resume != nil {
			select {
			case <-ctx.Done():
				return nil
			case <-l.resume:
			}
		}
		l.mu.Lock()
		var p *packet.Publish
		if next < l.base+uint64(len(l.entries)) {
			p = l.entries[next-l.base]
		}
		l.mu.Unlock()
		if p != nil {
			if err := f(next, p); err != nil {
				return err
			}
			next++
			continue
		}
		select {
		case <-ctx.Done():
			return nil
		case <-l.notify:
		}
	}
}
func (l *symxLog) Stream(ctx context.Context, consumer stream.Consumer, f func(*packet.Publish) error) error {
	return nil
}

// ---- a node wired from the real constructors ----

type symxBroker struct {
	id     uint64
	ctx    context.Context
	cancel context.CancelFunc
	bq     *memberlist.TransmitLimitedQueue
	state  distributed.State
	local  LocalState
	acks   ack.Queue
	writer *writer
	log    *symxLog
}

func symxNewBroker(id uint64, logBase uint64) *symxBroker {
	b := &symxBroker{id: id}
	symxTick()
	b.bq = &memberlist.TransmitLimitedQueue{RetransmitMult: 1, NumNodes: func() int { return 1 }}
	b.state = distributed.NewState(id, b.bq, audit.NoneRecorder())
	b.local = NewState(id)
	b.acks = ack.NewQueue()
	b.writer = NewWriter(id, b.state.Subscriptions(), b.local, b.acks)
	b.log = symxNewLog(logBase)
	ctx, cancel := context.WithCancel(context.Background())
	b.ctx, b.cancel = StoreLogger(ctx, zap.NewNop()), cancel
	return b
}

// connectSession registers a session the way setup does, without the CONNECT exchange.
func (b *symxBroker) session(id, clientID, mountPoint string, keepalive int32) (*sessions.Session, *symxConn) {
	conn := symxNewConn()
	s, err := sessions.NewSession(id, mountPoint, "tcp", conn, &packet.Connect{Header: &packet.Header{}, ClientId: []byte(clientID), KeepaliveTimer: keepalive})
	if err != nil {
		panic(err)
	}
	b.local.Create(id, s)
	return s, conn
}

func symxPublishes(ps []packet.Packet) []*packet.Publish {
	var out []*packet.Publish
	for _, p := range ps {
		if pub, ok := p.(*packet.Publish); ok {
			out = append(out, pub)
		}
	}
	return out
}

var _ = rt.Native

// ---- full pipeline: processor workers, log consumer, writer ----

type symxTaps struct{}

func (symxTaps) Run(ctx context.Context)                                 {}
func (symxTaps) Dispatch(context.Context, string, *packet.Publish) error { return nil }

type symxPipeline struct {
	*symxBroker
	proc        *packetProcessor
	distributor *PublishDistributor
}

// start wires and launches the real packet processor (20 workers), the real log consumer
// (SchedulePublishes) and the real writer loop around the fake log.
func (b *symxBroker) start(tr publishDistributorTransport) *symxPipeline {
	p := &symxPipeline{symxBroker: b}
	p.distributor = &PublishDistributor{ID: b.id, Transport: tr, State: b.state.Subscriptions(), Storage: b.log, Logger: zap.NewNop()}
	p.proc = NewPacketProcessor(b.local, b.state, b.writer, symxTaps{}, p.distributor, b.acks).(*packetProcessor)
	go b.writer.Run(b.ctx, b.log)
	go p.proc.Run(b.ctx)
	go SchedulePublishes(b.id, b.writer, b.log)(b.ctx)
	rt.Quiesce()
	return p
}

// expire runs an expiry sweep at the given virtual instant (what the writer's ticker does every second).
func (b *symxBroker) expire(sec, nsec int64) {
	b.acks.Expire(time.Unix(sec, nsec))
}

// ---- connection level: the real setup worker and serve loop over a fake connection ----

type symxAuth struct {
	fail       bool
	mountPoint string
	ids        []string
	next       int
}

func (a *symxAuth) Authenticate(ctx context.Context, mqtt auth.ApplicationContext, tr auth.TransportContext) (auth.Principal, error) {
	if a.fail {
		return auth.Principal{}, errors.New("bad credentials")
	}
	id := a.ids[a.next%len(a.ids)]
	a.next++
	mp := a.mountPoint
	if len(mqtt.Username) > 0 {
		mp = string(mqtt.Username) // harnesses select the tenant through the user name
	}
	return auth.Principal{ID: id, MountPoint: mp}, nil
}

type symxFront struct {
	*symxPipeline
	auth *symxAuth
	mgr  *manager
	// one setup worker serves every connection of a front, as each of the manager's setup
	// workers serves many connections one after the other
	worker *setupWorker
}

func (p *symxPipeline) front(a *symxAuth) *symxFront {
	m := NewConnectionManager(a, p.local, p.state, p.writer, p.proc, p.acks).(*manager)
	return &symxFront{symxPipeline: p, auth: a, mgr: m}
}

// connect runs the real setup on a fresh connection fed with the CONNECT bytes; on success the
// real serve loop is left running on the connection.
func (f *symxFront) connect(c *symxConn, connectBytes []byte) error {
	c.feed(connectBytes)
	if f.worker == nil {
		f.worker = &setupWorker{manager: f.mgr, decoder: decoder.New(), encoder: encoder.New(), authHandler: f.auth, state: f.state, local: f.local, writer: f.writer}
	}
	w := f.worker
	err := w.setup(f.ctx, transport.Metadata{Name: "tcp", Channel: c})
	if err != nil {
		c.Close() // what manager.runSetupper does with a failed setup
	}
	return err
}

// symxCleanSession is the CleanSession bit of the CONNECT packets built by symxConnectBytes.
var symxCleanSession = true

func symxLP(b []byte) []byte { return append([]byte{byte(len(b) >> 8), byte(len(b))}, b...) }

func symxFrame(first byte, body []byte) []byte {
	out := []byte{first}
	n := len(body)
	for {
		d := byte(n % 128)
		n /= 128
		if n > 0 {
			d |= 0x80
		}
		out = append(out, d)
		if n == 0 {
			break
		}
	}
	return append(out, body...)
}

// symxConnectBytes encodes an MQTT 3.1.1 CONNECT.
func symxConnectBytes(clientID string, keepalive uint16, user string, willTopic, willPayload []byte, willQos byte, willRetain bool) []byte {
	var flags byte
	if symxCleanSession {
		flags = 2
	}
	body := append(symxLP([]byte("MQTT")), 4)
	if len(willTopic) > 0 {
		flags |= 4 | (willQos << 3)
		if willRetain {
			flags |= 32
		}
	}
	if user != "" {
		flags |= 128
	}
	body = append(body, flags, byte(keepalive>>8), byte(keepalive))
	body = append(body, symxLP([]byte(clientID))...)
	if len(willTopic) > 0 {
		body = append(body, symxLP(willTopic)...)
		body = append(body, symxLP(willPayload)...)
	}
	if user != "" {
		body = append(body, symxLP([]byte(user))...)
	}
	return symxFrame(0x10, body)
}

func symxPingReq() []byte    { return []byte{0xC0, 0} }
func symxDisconnect() []byte { return []byte{0xE0, 0} }
func symxPublishBytes(topic string, payload []byte, qos byte, id uint16, retain bool) []byte {
	body := symxLP([]byte(topic))
	if qos > 0 {
		body = append(body, byte(id>>8), byte(id))
	}
	first := byte(0x30) | qos<<1
	if retain {
		first |= 1
	}
	return symxFrame(first, append(body, payload...))
}
func symxSubscribeBytes(id uint16, filter string, qos byte) []byte {
	body := append([]byte{byte(id >> 8), byte(id)}, symxLP([]byte(filter))...)
	return symxFrame(0x82, append(body, qos))
}

func symxConnAcks(ps []packet.Packet) (codes []int32) {
	for _, p := range ps {
		if a, ok := p.(*packet.ConnAck); ok {
			codes = append(codes, a.ReturnCode)
		}
	}
	return
}

func symxCount(ps []packet.Packet, typ byte) int {
	n := 0
	for _, p := range ps {
		if p.Type() == typ {
			n++
		}
	}
	return n
}

// tick advances the virtual clock by one millisecond (client packets never arrive at the same instant).
var symxClockMs int64

func symxTick() {
	symxClockMs++
	rt.SetNow(1600000000+symxClockMs/1000, (symxClockMs%1000)*1000000)
}

// symxPoolRetryWait lets n 100 ms retry pauses of writer.getFree elapse (virtual clock under
// the engine, real sleeps natively).
func symxPoolRetryWait(n int) {
	for w := 0; w < n; w++ {
		if rt.Native() {
			time.Sleep(110 * time.Millisecond)
		}
		symxClockMs += 100
		symxTick()
		rt.Quiesce()
	}
}

// symxGossip hands src's broadcasts to dst the way a gossip layer may, by solver choice: in order;
// with two of them swapped; or only the first k of them (the rest are lost) followed by the
// periodic full-state push/pull (src's LocalState merged by dst).
func symxGossip(payloads [][]byte, src, dst *symxBroker) {
	n := len(payloads)
	log := append([][]byte(nil), payloads...)
	mode := rt.Int("gossip_mode", 0, 2)
	switch mode {
	case 1:
		if n >= 2 {
			i, j := int(rt.Int("swap_a", 0, int64(n-1))), int(rt.Int("swap_b", 0, int64(n-1)))
			log[i], log[j] = log[j], log[i]
		}
	case 2:
		log = log[:int(rt.Int("gossip_delivered", 0, int64(n)))]
	}
	for _, p := range log {
		dst.state.Distributor().NotifyMsg(p)
	}
	if mode == 2 {
		dst.state.Distributor().MergeRemoteState(src.state.Distributor().LocalState(false), false)
	}
	rt.Cover(mode == 2 && len(log) < n, "gossip.lost_broadcasts_repaired_by_push_pull")
}
