package wasp

import (
	"context"
	"errors"

	"github.com/vx-labs/commitlog/stream"
	"github.com/vx-labs/mqtt-protocol/packet"
	rt "github.com/vx-labs/wasp/v4/zzsymxrt"
)

// symxBatchLog stands for messages.store seen from its consumer: Consume resumes AT the stored
// offset, hands the records over batch by batch, stops a batch only when the callback returns
// an error, stores the offset of every record whose callback returned nil, and looks at the
// context between batches (what store.Consume and the commitlog stream consumer do; the real
// loop itself is the subject of symxC15A/B in package messages).
type symxBatchLog struct {
	entries int
	batch   int
	stored  uint64
	started bool
}

func (l *symxBatchLog) Close() error                                { return nil }
func (l *symxBatchLog) Append(p *packet.Publish) error              { return errors.New("unused") }
func (l *symxBatchLog) Get(offset uint64) (*packet.Publish, error)  { return nil, errors.New("unused") }
func (l *symxBatchLog) Stream(ctx context.Context, consumer stream.Consumer, f func(*packet.Publish) error) error {
	return nil
}
func (l *symxBatchLog) Consume(ctx context.Context, consumerName string, f func(uint64, *packet.Publish) error) error {
	next := uint64(0)
	if l.started {
		next = l.stored
	}
	for next < uint64(l.entries) {
		if ctx.Err() != nil {
			return nil
		}
		end := next + uint64(l.batch)
		if end > uint64(l.entries) {
			end = uint64(l.entries)
		}
		for o := next; o < end; o++ {
			if err := f(o, &packet.Publish{Header: &packet.Header{}, Topic: []byte("t"), Payload: []byte{byte(o)}}); err != nil {
				return err
			}
			l.stored, l.started = o, true
		}
		next = end
	}
	return nil
}

// symxStopWriter records the offsets it is handed, as long as it is running, and stops the node
// (cancels the run's context) when it receives the offset chosen by the solver.
type symxStopWriter struct {
	got    []bool
	stopAt int
	cancel context.CancelFunc
}

func (w *symxStopWriter) Run(ctx context.Context, log messageLog) error { return nil }
func (w *symxStopWriter) Send(ctx context.Context, recipients []string, qosses []int32, p *packet.Publish) {
}
func (w *symxStopWriter) Schedule(ctx context.Context, offset uint64) {
	w.got[offset] = true
	if int(offset) == w.stopAt {
		w.cancel()
	}
}

// symxC15C: graceful stops. The real hand-over closure of SchedulePublishes (Scheduler.Schedule
// included) consumes a log of n entries in batches of a solver-chosen size; the node is stopped
// (context cancelled) while the writer takes the solver-chosen offset - possibly in the middle
// of a batch - and restarted, twice. An offset may only count as consumed (callback returned
// nil) if it was handed to the writer: after the last run every entry has been handed over.
func symxC15C() {
	n := rt.Param("entries", 6)
	log := &symxBatchLog{entries: n, batch: int(rt.Int("batch", 1, 4))}
	w := &symxStopWriter{got: make([]bool, n)}
	for run := 0; run < 3; run++ {
		ctx, cancel := context.WithCancel(context.Background())
		w.cancel = cancel
		w.stopAt = -1
		if run < 2 {
			w.stopAt = int(rt.Int("stop_at", -1, int64(n-1)))
		}
		SchedulePublishes(1, w, log)(ctx)
		cancel()
	}
	for o := 0; o < n; o++ {
		rt.Assert(w.got[o], "C15.every_entry_is_handed_to_the_writer_across_graceful_stops")
	}
	rt.Cover(log.batch >= 2, "C15.stop_inside_a_batch")
}
