package wasp

import (
	rt "github.com/vx-labs/wasp/v4/zzsymxrt"
)

// symxC06A: bounded allocate/release histories against a reference set.
func symxC06A() {
	maxP := rt.Param("max", 3)
	ops := rt.Param("ops", 5)
	max := int32(rt.Int("max", 0, int64(maxP)))
	p := newMIDPool(0, max)
	var out [16]bool // reference: outstanding ids
	n := 0
	for step := 0; step < ops; step++ {
		if rt.Bool("get") {
			id := p.Get()
			rt.Observe("get", id)
			if n == int(max)+1 {
				rt.Assert(id == -1, "C06.exhaustion_reported")
			} else {
				rt.Assert(id >= 0 && id <= max, "C06.in_range")
				rt.Assert(!out[id], "C06.unique")
				out[id] = true
				n++
			}
		} else {
			x := int32(rt.Int("x", -2, int64(maxP)+2))
			p.Put(x)
			if x >= 0 && x <= max && out[x] {
				out[x] = false
				n--
			}
		}
	}
	rt.Cover(n == int(max)+1, "C06.reached_exhaustion")
}
