package wasp

import (
	"github.com/vx-labs/mqtt-protocol/packet"
	rt "github.com/vx-labs/wasp/v4/zzsymxrt"
)

// symxC06A: bounded allocate/release histories against a reference set.
func symxC06A() {
	maxP := rt.Param("max", 3)
	ops := rt.Param("ops", 5)
	max := int32(rt.Int("max", 0, int64(maxP)))
	p := newMIDPool(0, max)
	var out [16]bool // reference: outstanding ids
	n := 0
	for step := 0; step < ops; step++ {
		if rt.Bool("get") {
			id := p.Get()
			rt.Observe("get", id)
			if n == int(max)+1 {
				rt.Assert(id == -1, "C06.exhaustion_reported")
			} else {
				rt.Assert(id >= 0 && id <= max, "C06.in_range")
				rt.Assert(!out[id], "C06.unique")
				out[id] = true
				n++
			}
		} else {
			x := int32(rt.Int("x", -2, int64(maxP)+2))
			p.Put(x)
			if x >= 0 && x <= max && out[x] {
				out[x] = false
				n--
			}
		}
	}
	rt.Cover(n == int(max)+1, "C06.reached_exhaustion")
}

func symxFree(iv []interval, id int32) bool {
	for _, x := range iv {
		if x.from < id && id <= x.to {
			return true
		}
	}
	return false
}

func symxInvariant(iv []interval, min, max int32) bool {
	prev := min - 1
	for _, x := range iv {
		if !(prev <= x.from && x.from < x.to && x.to <= max) {
			return false
		}
		prev = x.to
	}
	return true
}

// symxC06B: one operation from an arbitrary valid allocator state on the production-sized range.
// The pre-state is any sorted list of <= n non-overlapping free intervals (from,to]; the
// post-condition is checked for an arbitrary probe identifier, so it holds for every identifier.
func symxC06B() {
	nmax := rt.Param("intervals", 3)
	max := int32(rt.Int("max", 0, 65535))
	n := int(rt.Int("n", 0, int64(nmax)))
	pre := make([]interval, n)
	for k := range pre {
		pre[k] = interval{from: int32(rt.Int("from", -1, 65535)), to: int32(rt.Int("to", -1, 65535))}
	}
	rt.Assume(symxInvariant(pre, 0, max))
	work := make([]interval, n)
	copy(work, pre)
	p := &simpleMidPool{min: 0, max: max, intervals: work}
	probe := int32(rt.Int("probe", -2, 65537))
	wasFree := symxFree(pre, probe)
	if rt.Bool("get") {
		var v int32
		panicked := symxSafely(func() { v = p.Get() })
		rt.Assert(!panicked, "C06.step.no_panic")
		if n == 0 {
			rt.Assert(v == -1, "C06.step.exhaustion_reported")
			rt.Assert(len(p.intervals) == 0, "C06.step.exhausted_state_unchanged")
		} else {
			rt.Assert(v >= 0 && v <= max, "C06.step.in_range")
			rt.Assert(symxFree(pre, v), "C06.step.handed_out_id_was_free")
			rt.Assert(symxInvariant(p.intervals, 0, max), "C06.step.invariant_after_get")
			rt.Assert(symxFree(p.intervals, probe) == (wasFree && probe != v), "C06.step.get_removes_exactly_that_id")
		}
	} else {
		x := int32(rt.Int("x", -2, 65537))
		panicked := symxSafely(func() { p.Put(x) })
		rt.Assert(!panicked, "C06.step.no_panic")
		rt.Assert(symxInvariant(p.intervals, 0, max), "C06.step.invariant_after_put")
		inRange := x >= 0 && x <= max
		rt.Assert(symxFree(p.intervals, probe) == (wasFree || (inRange && probe == x)), "C06.step.put_frees_exactly_that_id")
		rt.Cover(inRange && symxFree(pre, x), "C06.step.put_of_free_id")
		rt.Cover(inRange && !symxFree(pre, x) && n == nmax, "C06.step.put_of_outstanding_id")
	}
}

func symxSafely(f func()) (panicked bool) {
	defer func() {
		if r := recover(); r != nil {
			panicked = true
		}
	}()
	f()
	return false
}

// symxC06C: on the wire. A writer with a tiny identifier pool and more QoS>0 deliveries than
// identifiers: the identifiers of unacknowledged PUBLISH packets are pairwise distinct and lie
// in the configured range; an exhausted pool never shows up as an identifier on the wire.
func symxC06C() {
	max := int32(rt.Param("max", 2))
	sends := rt.Param("sends", 4)
	b := symxNewBroker(1, 1)
	b.writer.midPool = newMIDPool(0, max)
	p := b.start(nil)
	s, c := b.session("s", "c", "m", 30)
	outstanding := map[int32]bool{}
	carried := map[int32]byte{} // identifier -> payload of the delivery that holds it
	seen := 0
	for k := 0; k < sends; k++ {
		symxTick()
		if rt.Bool("ack_one") && len(outstanding) > 0 {
			// acknowledge the smallest outstanding identifier
			var pick int32 = -1
			for id := range outstanding {
				if pick < 0 || id < pick {
					pick = id
				}
			}
			p.proc.Process(b.ctx, s, c, &packet.PubAck{Header: &packet.Header{}, MessageId: pick})
			delete(outstanding, pick)
			delete(carried, pick)
			rt.Quiesce()
		}
		b.writer.Send(b.ctx, []string{"s"}, []int32{1}, &packet.Publish{Header: &packet.Header{}, Topic: []byte("m/t"), Payload: []byte{byte('a' + k)}})
		rt.Quiesce()
		symxPoolRetryWait(6)
		pubs := symxPublishes(c.written())
		for _, pk := range pubs[seen:] {
			rt.Assert(pk.MessageId >= 1 && pk.MessageId <= max, "C06.wire.identifier_in_configured_range")
			if outstanding[pk.MessageId] && len(pk.Payload) == 1 && carried[pk.MessageId] == pk.Payload[0] {
				continue // a retransmission of the same delivery (natively the real expiry ticker may fire)
			}
			rt.Assert(!outstanding[pk.MessageId], "C06.wire.identifier_not_already_in_flight")
			outstanding[pk.MessageId] = true
			if len(pk.Payload) == 1 {
				carried[pk.MessageId] = pk.Payload[0]
			}
		}
		seen = len(pubs)
	}
	rt.Cover(len(outstanding) == int(max), "C06.wire.pool_exhausted")
	if rt.Bool("session_ends") {
		// the session goes away with deliveries in flight: after the next sweep every identifier is free again
		b.local.Delete("s")
		symxSweepNow(b)
		pool := b.writer.midPool.(*simpleMidPool)
		for id := int32(1); id <= max; id++ {
			rt.Assert(symxFree(pool.intervals, id), "C06.wire.no_identifier_leaks_when_the_session_ends")
		}
	}
	b.cancel()
	rt.Quiesce()
}
