package wasp

import (
	"bytes"

	"github.com/vx-labs/mqtt-protocol/packet"
	rt "github.com/vx-labs/wasp/v4/zzsymxrt"
)

// symxC02: accept -> store -> hand over -> write, from an arbitrary log position (the very first
// offset 0 included). If the publisher saw PUBACK / PUBCOMP, the connected matching subscriber
// holds the message with topic and payload intact.
func symxC02() {
	base := uint64(rt.Int("first_offset", 0, 2000))
	b := symxNewBroker(1, base)
	p := b.start(nil)
	pubS, pubC := b.session("pub", "cp", "m", 30)
	subS, subC := b.session("sub", "cs", "m", 30)
	if rt.Bool("stale_subscription_first") {
		// a matching subscription whose session is not connected here (it just went away)
		b.state.Subscriptions().Create("ghost", []byte("m/t/#"), 0)
	}
	subQos := int32(rt.Int("sub_qos", 0, 2))
	err := p.proc.Process(b.ctx, subS, subC, &packet.Subscribe{Header: &packet.Header{}, MessageId: 1, Topic: [][]byte{[]byte("t/+")}, Qos: []int32{subQos}})
	rt.Assert(err == nil, "C02.subscribe_ok")
	rt.Quiesce()
	n := rt.Param("publishes", 1)
	type sent struct {
		payload []byte
		acked   bool
	}
	var all []sent
	for k := 0; k < n; k++ {
		qos := int32(rt.Int("pub_qos", 0, 2))
		payload := []byte{rt.Byte("payload"), byte('0' + k)}
		id := int32(10 + k)
		symxTick()
		before := len(pubC.written())
		// the local log may refuse this entry (write fault, oversized entry): then the publish
		// must not be acknowledged - an acknowledged one must still reach the subscriber
		b.log.failAppend = rt.Bool("log_refuses_the_entry")
		err := p.proc.Process(b.ctx, pubS, pubC, &packet.Publish{Header: &packet.Header{Qos: qos}, MessageId: id, Topic: []byte("t/x"), Payload: payload})
		rt.Assert(err == nil, "C02.publish_accepted")
		rt.Quiesce()
		if qos == 2 {
			symxTick()
			err = p.proc.Process(b.ctx, pubS, pubC, &packet.PubRel{Header: &packet.Header{}, MessageId: id})
			rt.Assert(err == nil, "C02.pubrel_accepted")
			rt.Quiesce()
		}
		// let a writer that is waiting for a free packet identifier proceed
		symxPoolRetryWait(2)
		acked := false
		for _, pk := range pubC.written()[before:] {
			switch a := pk.(type) {
			case *packet.PubAck:
				acked = acked || a.MessageId == id
			case *packet.PubComp:
				acked = acked || a.MessageId == id
			}
		}
		if qos > 0 && !b.log.failAppend {
			rt.Assert(acked, "C02.stored_publish_is_acknowledged")
		}
		b.log.failAppend = false
		all = append(all, sent{payload, acked})
	}
	got := symxPublishes(subC.written())
	for _, s := range all {
		if !s.acked {
			continue
		}
		found := 0
		for _, g := range got {
			if bytes.Equal(g.Topic, []byte("t/x")) && bytes.Equal(g.Payload, s.payload) {
				found++
			}
		}
		rt.Assert(found >= 1, "C02.acknowledged_publish_reaches_connected_subscriber")
	}
	rt.Cover(base == 0, "C02.very_first_offset")
	rt.Cover(base == 1500, "C02.offset_1500")
	b.cancel()
	rt.Quiesce()
}

// symxC02Burst: a burst of acknowledged publishes while the writer is held up (its first
// QoS>0 delivery waits 100 ms for a usable packet identifier): more log entries than the writer
// queue has slots pile up; once the writer resumes every one of them reaches the subscriber.
func symxC02Burst() {
	n := rt.Param("burst", 30)
	base := uint64(rt.Int("first_offset", 0, 2000))
	b := symxNewBroker(1, base)
	p := b.start(nil)
	pubS, pubC := b.session("pub", "cp", "m", 30)
	subS, subC := b.session("sub", "cs", "m", 30)
	subQos := int32(rt.Int("sub_qos", 0, 2))
	rt.Assert(p.proc.Process(b.ctx, subS, subC, &packet.Subscribe{Header: &packet.Header{}, MessageId: 1, Topic: [][]byte{[]byte("t")}, Qos: []int32{subQos}}) == nil, "C02.subscribe_ok")
	rt.Quiesce()
	for k := 0; k < n; k++ {
		symxTick()
		err := p.proc.Process(b.ctx, pubS, pubC, &packet.Publish{Header: &packet.Header{Qos: 1}, MessageId: int32(100 + k), Topic: []byte("t"), Payload: []byte{byte(k)}})
		rt.Assert(err == nil, "C02.publish_accepted")
		// the burst arrives inside the 100 ms the writer spends on its first identifier: the engine's
		// clock stands still across Quiesce, a native run must not pause between the publishes
		if !rt.Native() {
			rt.Quiesce()
		}
	}
	rt.Quiesce()
	acked := symxCount(pubC.written(), packet.PUBACK)
	rt.Assert(acked == n, "C02.stored_publish_is_acknowledged")
	symxPoolRetryWait(3)
	var seen [256]int
	for _, g := range symxPublishes(subC.written()) {
		if len(g.Payload) == 1 {
			seen[g.Payload[0]]++
		}
	}
	for k := 0; k < n; k++ {
		rt.Assert(seen[k] >= 1, "C02.acknowledged_publish_reaches_connected_subscriber")
	}
	rt.Cover(subQos > 0, "C02.burst_behind_a_held_up_writer")
	b.cancel()
	rt.Quiesce()
}
