package wasp

import (
	"github.com/vx-labs/mqtt-protocol/packet"
	"github.com/vx-labs/wasp/v4/wasp/sessions"
	rt "github.com/vx-labs/wasp/v4/zzsymxrt"
)

// symxC05: inbound publishes. A script of PUBLISH (QoS 0/1/2, identifier 5 or 6), PUBREL and
// handshake time-outs from one client; a matching subscriber lives on this node and possibly on
// a second node; the local log and the remote node may fail. Acknowledgements only after every
// destination accepted the message; QoS 2 forwarded exactly once per PUBLISH/PUBREL handshake.
func symxC05() {
	symxResetNet()
	steps := rt.Param("steps", 2)
	b1, b2 := symxNewBroker(1, 1), symxNewBroker(2, 1)
	symxNet.brokers[1], symxNet.brokers[2] = b1, b2
	p1 := b1.start(symxTransport{})
	b2.start(symxTransport{})
	symxGossipSub(b1, "local", 1, "m/#", 0, 100)
	remote := rt.Bool("remote_subscriber")
	if remote {
		symxGossipSub(b1, "far", 2, "m/#", 0, 101)
	}
	nclients := rt.Param("clients", 1)
	var pubSs [2]*sessions.Session
	var pubCs [2]*symxConn
	for k := 0; k < nclients; k++ {
		pubSs[k], pubCs[k] = b1.session([]string{"pub", "pub2"}[k], []string{"cp", "cp2"}[k], "m", 30)
	}
	// optionally every publish worker has already handled a successful publish (state carried
	// from one publish to the next inside a worker must not leak into later decisions)
	if rt.Param("warmup", 0) > 0 && rt.Bool("workers_warmed_up") {
		for k := 0; k < rt.Param("warmup", 0); k++ {
			symxTick()
			p1.proc.Process(b1.ctx, pubSs[0], pubCs[0], &packet.Publish{Header: &packet.Header{}, Topic: []byte("t"), Payload: []byte("w")})
			rt.Quiesce()
		}
	}
	var opens [2][2]bool // per client: handshake open for id 5 / 6 (identifiers are per session)
	ids := []int32{5, 6}
	for step := 0; step < steps; step++ {
		cl := 0
		if nclients > 1 {
			cl = int(rt.Int("client", 0, 1))
		}
		pubS, pubC := pubSs[cl], pubCs[cl]
		open := &opens[cl]
		b1.log.failAppend = rt.Bool("local_log_fails")
		symxNet.fail[2] = rt.Bool("remote_fails")
		symxFailureKind(2)
		allOK := !b1.log.failAppend && !(remote && symxNet.fail[2])
		k := int(rt.Int("id", 0, 1))
		id := ids[k]
		localBefore, remoteBefore := b1.log.appends, symxNet.calls[2]
		wBefore := len(pubC.written())
		kind := rt.Int("kind", 0, 2)
		wantForward, wantAck, wantComp := 0, 0, 0
		symxTick()
		switch kind {
		case 0: // PUBLISH
			qos := int32(rt.Int("qos", 0, 2))
			dup := rt.Bool("dup")
			// RETAIN and a zero-length payload (the "clear the retained message" form) are the
			// solver's choice too: such a publish is still a message to store and deliver
			retain := rt.Param("retain", 0) == 1 && rt.Bool("retain")
			payload := []byte("x")
			if retain && rt.Bool("empty_payload") {
				payload = []byte{}
			}
			p1.proc.Process(b1.ctx, pubS, pubC, &packet.Publish{Header: &packet.Header{Qos: qos, Dup: dup, Retain: retain}, MessageId: id, Topic: []byte("t"), Payload: payload})
			switch qos {
			case 0:
				wantForward = 1
			case 1:
				wantForward = 1
				if allOK {
					wantAck = 1
				}
			case 2:
				open[k] = true // (re-)opening an open handshake must not forward
			}
		case 1: // PUBREL
			p1.proc.Process(b1.ctx, pubS, pubC, &packet.PubRel{Header: &packet.Header{}, MessageId: id})
			if open[k] {
				wantForward = 1
				if allOK {
					wantComp = 1
				}
				open[k] = false
			}
		case 2: // the handshakes time out (sweep 5 s later)
			symxClockMs += 5000
			symxTick()
			b1.expire(1600000000+symxClockMs/1000+1, 0)
			opens = [2][2]bool{}
		}
		rt.Quiesce()
		rt.Assert(b1.log.appends-localBefore == wantForward, "C05.forwarded_to_local_log_exactly_as_expected")
		if remote {
			rt.Assert(symxNet.calls[2]-remoteBefore == wantForward, "C05.forwarded_to_remote_node_exactly_as_expected")
		}
		acks, comps := 0, 0
		for _, pk := range pubC.written()[wBefore:] {
			switch a := pk.(type) {
			case *packet.PubAck:
				if a.MessageId == id {
					acks++
				}
			case *packet.PubComp:
				if a.MessageId == id {
					comps++
				}
			}
		}
		rt.Assert(acks == wantAck, "C05.puback_only_after_every_destination_accepted")
		rt.Assert(comps == wantComp, "C05.pubcomp_only_after_forward_accepted")
	}
	rt.Cover(remote && symxNet.fail[2], "C05.remote_failure")
	b1.cancel()
	b2.cancel()
	rt.Quiesce()
}
