package subscriptions

import (
	"bytes"

	rt "github.com/vx-labs/wasp/v4/zzsymxrt"
)

var symxKeys = []string{"a", "a/b", "a/b/c", "a/c", "b"}

func symxSafely(f func()) (panicked bool) {
	defer func() {
		if r := recover(); r != nil {
			panicked = true
		}
	}()
	f()
	return false
}

func symxCheckAll(t Tree, ref *[5][]byte) {
	n := 0
	for k, key := range symxKeys {
		var got [][]byte
		t.Walk([]byte(key), func(b []byte) {
			if len(b) > 0 {
				got = append(got, b)
			}
		})
		if len(ref[k]) == 0 {
			rt.Assert(len(got) == 0, "C19.subs.absent_key_yields_nothing")
		} else {
			n++
			rt.Assert(len(got) == 1, "C19.subs.present_key_yields_once")
			rt.Assert(bytes.Equal(got[0], ref[k]), "C19.subs.value_at_key")
		}
	}
	it := 0
	okAll := true
	t.Iterate(func(b []byte) {
		it++
		found := false
		for k := range symxKeys {
			if len(ref[k]) > 0 && bytes.Equal(ref[k], b) {
				found = true
			}
		}
		okAll = okAll && found
	})
	rt.Assert(it == n && okAll, "C19.subs.iterate")
}

// symxC19Subs: upsert (new value / keep / empty) and dump-load against a reference map.
func symxC19Subs() {
	ops := rt.Param("ops", 3)
	t := NewTree()
	var ref [5][]byte
	loaded := false
	for step := 0; step < ops; step++ {
		kind := rt.Int("kind", 0, 3)
		k := int(rt.Int("key", 0, 4))
		key := []byte(symxKeys[k])
		switch kind {
		case 0: // upsert returning a new value; the callback must see the old one
			v := rt.Byte("val")
			rt.Assume(v != 0)
			var seen []byte
			p := symxSafely(func() {
				t.Upsert(key, func(old []byte) []byte { seen = old; return []byte{v, byte(step + 1)} })
			})
			rt.Assert(!p, "C19.subs.no_panic")
			rt.Assert(bytes.Equal(seen, ref[k]), "C19.subs.callback_sees_old_value")
			ref[k] = []byte{v, byte(step + 1)}
		case 1: // upsert keeping the old value
			p := symxSafely(func() { t.Upsert(key, func(old []byte) []byte { return old }) })
			rt.Assert(!p, "C19.subs.no_panic")
		case 2: // upsert returning empty = removal
			p := symxSafely(func() { t.Upsert(key, func(old []byte) []byte { return nil }) })
			rt.Assert(!p, "C19.subs.no_panic")
			ref[k] = nil
		case 3:
			buf, err := t.Dump()
			rt.Assert(err == nil, "C19.subs.dump_ok")
			// into a fresh store, or back into the store the dump came from
			if rt.Bool("load_into_the_same_store") {
				rt.Assert(t.Load(buf) == nil, "C19.subs.load_ok")
			} else {
				t2 := NewTree()
				rt.Assert(t2.Load(buf) == nil, "C19.subs.load_ok")
				t = t2
			}
			loaded = true
		}
		symxCheckAll(t, &ref)
	}
	rt.Cover(loaded && len(ref[1]) > 0 && len(ref[0]) > 0, "C19.subs.prefix_pair_after_load")
}

func symxPar(a, b func()) {
	done := make(chan struct{}, 2)
	go func() { a(); done <- struct{}{} }()
	go func() { b(); done <- struct{}{} }()
	<-done
	<-done
}

// symxC20Subs: concurrent operations on the subscription trie.
func symxC20Subs() {
	t := NewTree()
	t.Upsert([]byte("a"), func([]byte) []byte { return []byte("1") })
	switch rt.Int("pair", 0, 1) {
	case 0:
		symxPar(func() { t.Upsert([]byte("a/b"), func([]byte) []byte { return []byte("2") }) },
			func() { t.Upsert([]byte("a"), func([]byte) []byte { return nil }) })
		n := 0
		t.Iterate(func(b []byte) { n++ })
		rt.Assert(n == 1, "C20.subs.upsert_beside_removal_of_its_prefix")
	case 1:
		n := 0
		symxPar(func() { t.Upsert([]byte("a/b"), func([]byte) []byte { return []byte("2") }) },
			func() { t.Walk([]byte("a/b"), func(b []byte) { n += len(b) }) })
		rt.Assert(n == 0 || n == 1, "C20.subs.walk_sees_a_consistent_tree")
	}
}
