package zzsymxrt

import (
	"runtime"
	"time"
)

func nativeQuiesce() {
	for k := 0; k < 20; k++ {
		runtime.Gosched()
		time.Sleep(2 * time.Millisecond)
	}
}
