package zzsymxrt

import (
	"os"
	"runtime"
	"time"
)

// nativeQuiesce approximates "every other goroutine has run until it blocked" by yielding and
// sleeping; SYMX_SLOW=1 (used when a first replay disagreed with the engine) waits ten times longer.
func nativeQuiesce() {
	rounds := 25
	if os.Getenv("SYMX_SLOW") != "" {
		rounds = 250
	}
	for k := 0; k < rounds; k++ {
		runtime.Gosched()
		time.Sleep(3 * time.Millisecond)
	}
}
