// Package zzsymxrt is the harness runtime. Under the symx engine every function
// here is intercepted (inputs become solver variables); compiled natively it
// reads one concrete input vector, so a harness can be replayed against the
// real build.
package zzsymxrt

import (
	"encoding/json"
	"fmt"
	"os"
	"sort"
	"strings"
)

type Vector struct {
	Harness string            `json:"harness"`
	Vars    map[string]uint64 `json:"vars"`
	Params  map[string]int    `json:"params"`
	Known   []string          `json:"known"`
}

type Outcome struct {
	Harness  string   `json:"harness"`
	Status   string   `json:"status"` // ok | violation | assume-failed | panic
	Label    string   `json:"label,omitempty"`
	Msg      string   `json:"msg,omitempty"`
	Observed []string `json:"observed"`
	Known    []string `json:"known_seen,omitempty"`
	Covers   []string `json:"covers,omitempty"`
}

type violation struct{ label string }
type assumeFailed struct{}

var (
	cur      Vector
	counts   map[string]int
	observed []string
	knownHit map[string]bool
	covers   map[string]bool
	fresh    int
)

func reset(v Vector) {
	cur = v
	counts = map[string]int{}
	observed = nil
	knownHit = map[string]bool{}
	covers = map[string]bool{}
	fresh = 0
}

func varName(base string) string {
	n := counts[base]
	counts[base] = n + 1
	if n > 0 {
		return fmt.Sprintf("%s#%d", base, n)
	}
	return base
}

// Int returns an input in [lo,hi].
func Int(name string, lo, hi int64) int64 {
	def := int64(0)
	if lo > 0 || hi < 0 {
		def = lo
	}
	v, ok := cur.Vars[varName(name)]
	if !ok || int64(v) < lo || int64(v) > hi {
		return def
	}
	return int64(v)
}

func Bool(name string) bool { return cur.Vars[varName(name)] != 0 }
func Byte(name string) byte { return byte(cur.Vars[varName(name)]) }
func Bytes(name string, n int) []byte {
	out := make([]byte, n)
	for k := range out {
		out[k] = byte(cur.Vars[varName(fmt.Sprintf("%s[%d]", name, k))])
	}
	return out
}

// Param is a concrete per-tier bound chosen by the check configuration.
func Param(name string, def int) int {
	if v, ok := cur.Params[name]; ok {
		return v
	}
	return def
}

func Fresh() int { fresh++; return fresh }

func Assume(c bool) {
	if !c {
		panic(assumeFailed{})
	}
}

func Assert(c bool, label string) {
	if !c {
		panic(violation{label})
	}
}

func Cover(c bool, label string) {
	if c {
		covers[label] = true
	}
}

func Known(id string) bool {
	for _, k := range cur.Known {
		if k == id {
			return true
		}
	}
	return false
}

func Report(id string, c bool) {
	if c {
		knownHit[id] = true
	}
}

func canon(sb *strings.Builder, v interface{}) {
	switch v := v.(type) {
	case nil:
		sb.WriteString("nil")
	case bool:
		fmt.Fprintf(sb, "%v", v)
	case int, int8, int16, int32, int64, uint, uint8, uint16, uint32, uint64, uintptr:
		fmt.Fprintf(sb, "%d", v)
	case string:
		fmt.Fprintf(sb, "%q", v)
	case []byte:
		if len(v) == 0 {
			sb.WriteString("[]")
			return
		}
		sb.WriteString("x")
		for _, b := range v {
			fmt.Fprintf(sb, "%02x", b)
		}
	case []string:
		sb.WriteString("[")
		for k, e := range v {
			if k > 0 {
				sb.WriteString(" ")
			}
			canon(sb, e)
		}
		sb.WriteString("]")
	case []int:
		sb.WriteString("[")
		for k, e := range v {
			if k > 0 {
				sb.WriteString(" ")
			}
			canon(sb, e)
		}
		sb.WriteString("]")
	case []int32:
		sb.WriteString("[")
		for k, e := range v {
			if k > 0 {
				sb.WriteString(" ")
			}
			canon(sb, e)
		}
		sb.WriteString("]")
	case error:
		canon(sb, v.Error())
	default:
		panic(fmt.Sprintf("zzsymxrt.Observe: unsupported type %T", v))
	}
}

// Observe records values the engine predicted; natively they are compared with the prediction.
func Observe(name string, vs ...interface{}) {
	var sb strings.Builder
	for k, v := range vs {
		if k > 0 {
			sb.WriteString(" ")
		}
		canon(&sb, v)
	}
	observed = append(observed, name+"="+sb.String())
}

// Quiesce lets all other goroutines run until they block (engine); natively a bounded wait.
func Quiesce() { nativeQuiesce() }

// Yield lets other goroutines run.
func Yield() {}

func Native() bool { return true }

// SetNow sets the virtual clock (engine only).
func SetNow(sec, nsec int64) { nativeNow = [2]int64{sec, nsec} }

var nativeNow [2]int64

func NowPair() (int64, int64) { return nativeNow[0], nativeNow[1] }

// Concrete pins a value (no-op natively).
func Concrete(v int) int { return v }

func runOne(v Vector, fn func()) (out Outcome) {
	reset(v)
	out.Harness = v.Harness
	defer func() {
		r := recover()
		out.Observed = observed
		for k := range knownHit {
			out.Known = append(out.Known, k)
		}
		sort.Strings(out.Known)
		for k := range covers {
			out.Covers = append(out.Covers, k)
		}
		sort.Strings(out.Covers)
		switch r := r.(type) {
		case nil:
			out.Status = "ok"
		case violation:
			out.Status, out.Label = "violation", r.label
		case assumeFailed:
			out.Status = "assume-failed"
		default:
			out.Status, out.Msg = "panic", fmt.Sprint(r)
		}
	}()
	fn()
	return
}

// RunNative replays every vector of $SYMX_INPUT and writes outcomes to $SYMX_OUTPUT
// (one JSON line per vector, flushed, so a crash leaves a usable prefix).
func RunNative(harnesses map[string]func()) error {
	raw, err := os.ReadFile(os.Getenv("SYMX_INPUT"))
	if err != nil {
		return err
	}
	var vs []Vector
	if err := json.Unmarshal(raw, &vs); err != nil {
		return err
	}
	f, err := os.Create(os.Getenv("SYMX_OUTPUT"))
	if err != nil {
		return err
	}
	defer f.Close()
	for k, v := range vs {
		fn := harnesses[v.Harness]
		if fn == nil {
			return fmt.Errorf("unknown harness %q", v.Harness)
		}
		fmt.Fprintf(f, "{\"begin\":%d}\n", k)
		f.Sync()
		o := runOne(v, fn)
		b, _ := json.Marshal(o)
		f.Write(append(b, '\n'))
		f.Sync()
	}
	return nil
}

// Drain returns the payloads queued on a memberlist.TransmitLimitedQueue since the last call
// (engine: FIFO model; natively the real queue is drained).
func Drain(q interface{}) [][]byte {
	g, ok := q.(interface {
		GetBroadcasts(overhead, limit int) [][]byte
	})
	if !ok {
		panic("zzsymxrt.Drain: not a broadcast queue")
	}
	var out [][]byte
	seen := map[string]bool{}
	for k := 0; k < 64; k++ {
		bs := g.GetBroadcasts(0, 1<<24)
		if len(bs) == 0 {
			break
		}
		for _, b := range bs {
			if !seen[string(b)] {
				seen[string(b)] = true
				out = append(out, b)
			}
		}
	}
	return out
}

// And, Or, Implies build a condition without forking the path under the engine
// (Go's && and || compile to branches); natively they are the plain operators.
func And(a, b bool) bool     { return a && b }
func Or(a, b bool) bool      { return a || b }
func Implies(a, b bool) bool { return !a || b }
