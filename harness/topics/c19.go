package topics

import (
	"bytes"

	rt "github.com/vx-labs/wasp/v4/zzsymxrt"
)

var symxKeys = []string{"a", "a/b", "a/b/c", "a/c", "b"}

func symxSafely(f func()) (panicked bool) {
	defer func() {
		if r := recover(); r != nil {
			panicked = true
		}
	}()
	f()
	return false
}

// symxCheckAll compares every observable of the store with the reference map.
func symxCheckAll(t Store, ref *[5][]byte, when string) {
	n := 0
	for k, key := range symxKeys {
		var got [][]byte
		err := t.Match([]byte(key), &got)
		rt.Assert(err == nil, "C19.topics.match_no_error")
		if len(ref[k]) == 0 {
			rt.Assert(len(got) == 0, "C19.topics.absent_key_matches_nothing")
		} else {
			n++
			rt.Assert(len(got) == 1, "C19.topics.present_key_matches_once")
			rt.Assert(bytes.Equal(got[0], ref[k]), "C19.topics.value_at_key")
		}
	}
	rt.Assert(t.Count() == n, "C19.topics.count")
	it := 0
	okAll := true
	t.Iterate(func(b []byte) {
		it++
		found := false
		for k := range symxKeys {
			if len(ref[k]) > 0 && bytes.Equal(ref[k], b) {
				found = true
			}
		}
		okAll = okAll && found
	})
	rt.Assert(it == n && okAll, "C19.topics.iterate")
}

// symxC19Topics: sequences of insert / clear / remove / dump-load against a reference map.
func symxC19Topics() {
	ops := rt.Param("ops", 3)
	t := NewTree()
	var ref [5][]byte
	loaded := false
	for step := 0; step < ops; step++ {
		kind := rt.Int("kind", 0, 3)
		k := int(rt.Int("key", 0, 4))
		key := []byte(symxKeys[k])
		switch kind {
		case 0: // insert non-empty
			v := rt.Byte("val")
			rt.Assume(v != 0)
			var old bool
			p := symxSafely(func() { old, _ = t.Insert(key, []byte{v, byte(step + 1)}) })
			rt.Assert(!p, "C19.topics.no_panic")
			rt.Assert(old == (len(ref[k]) > 0), "C19.topics.insert_reports_replacement")
			ref[k] = []byte{v, byte(step + 1)}
		case 1: // insert empty payload = clear
			p := symxSafely(func() { t.Insert(key, nil) })
			rt.Assert(!p, "C19.topics.no_panic")
			ref[k] = nil
		case 2: // remove
			p := symxSafely(func() { t.Remove(key) })
			rt.Assert(!p, "C19.topics.no_panic")
			ref[k] = nil
		case 3: // dump -> load
			buf, err := t.Dump()
			rt.Assert(err == nil, "C19.topics.dump_ok")
			// into a fresh store, or back into the store the dump came from
			if rt.Bool("load_into_the_same_store") {
				rt.Assert(t.Load(buf) == nil, "C19.topics.load_ok")
			} else {
				t2 := NewTree()
				rt.Assert(t2.Load(buf) == nil, "C19.topics.load_ok")
				t = t2
			}
			loaded = true
		}
		symxCheckAll(t, &ref, "step")
	}
	rt.Cover(loaded && len(ref[1]) > 0 && len(ref[0]) > 0, "C19.topics.prefix_pair_after_load")
	rt.Cover(len(ref[0]) > 0 && len(ref[1]) == 0, "C19.topics.parent_without_child")
}

func symxPar(a, b func()) {
	done := make(chan struct{}, 2)
	go func() { a(); done <- struct{}{} }()
	go func() { b(); done <- struct{}{} }()
	<-done
	<-done
}

// symxC20Topics: concurrent operations on the retained-message trie.
func symxC20Topics() {
	t := NewTree()
	t.Insert([]byte("a"), []byte("1"))
	switch rt.Int("pair", 0, 2) {
	case 0:
		symxPar(func() { t.Insert([]byte("a/b"), []byte("2")) }, func() { t.Insert([]byte("b"), []byte("3")) })
		rt.Assert(t.Count() == 3, "C20.topics.both_inserts_take_effect")
	case 1:
		var got [][]byte
		symxPar(func() { t.Insert([]byte("a/b"), []byte("2")) }, func() { t.Match([]byte("a/#"), &got) })
		rt.Assert(len(got) == 1 || len(got) == 2, "C20.topics.match_sees_a_consistent_tree")
	case 2:
		symxPar(func() { t.Insert([]byte("a/b"), []byte("2")) }, func() { t.Remove([]byte("a")) })
		var got [][]byte
		t.Match([]byte("a/b"), &got)
		rt.Assert(len(got) == 1 && t.Count() == 1, "C20.topics.insert_beside_remove_of_its_prefix")
	}
}
