#!/usr/bin/env python3
# prints the markdown table of seeded defects for DESIGN.md §8
import json,glob,os,re
rows=[]
for d in sorted(glob.glob('/verif/seeded/C*-*/')):
    m=json.load(open(d+'meta.json'))
    sid=os.path.basename(d.rstrip('/'))
    diff=open(d+'patch.diff').read()
    files=sorted(set(re.findall(r'^\+\+\+ b/(\S+)',diff,re.M)))
    caught=m['ran'][1].split(': ',1)[1] if len(m['ran'])>1 else ''
    rows.append(f"| {sid} | {', '.join(files)} | {m['needs_to_manifest']} | {caught} |")
print("| seed | files changed | needs, to manifest | result of the property's quick check |")
print("|---|---|---|---|")
print("\n".join(rows))
