#!/bin/sh
# usage: prescreen.sh <prop> <worktree-with-change-applied> [only]  -- runs the quick check of <prop> against a scratch
# worktree from a private copy of /verif (so /verif/evidence and /repo stay untouched). Pre-screening only: a seed is
# recorded after tools/run_seed.sh (patch applied to /repo itself) has confirmed the result.
PROP=$1; WT=$2; ONLY=$3
V=$(mktemp -d /tmp/vs.XXXXXX)
rsync -a --exclude .git --exclude out /verif/ "$V/"
cd "$V"
./bin/symx run -verif "$V" -repo "$WT" -prop "$PROP" -tier quick -j ${J:-8} ${ONLY:+-only $ONLY} > /tmp/prescreen_$PROP$ONLY.out 2>&1
RC=$?
grep -E "^VIOLATION|^INCONCLUSIVE|^ENGINE-MISMATCH|^KNOWN" /tmp/prescreen_$PROP$ONLY.out | cut -c1-300 | head -6
echo "$PROP rc=$RC"
rm -rf "$V"
