#!/bin/sh
# usage: run_seed.sh <prop> <patch.diff> [tier]   -- applies the patch to /repo, runs the check, reverts
PROP=$1; PATCH=$2; TIER=${3:-quick}
git -C /repo apply "$PATCH" || { echo "patch does not apply"; exit 3; }
/verif/check "$PROP" "$TIER" > /tmp/run_seed.out 2>&1
RC=$?
git -C /repo checkout -- . 
git -C /repo status --short | head -3
grep -E "^VIOLATION|^INCONCLUSIVE|^ENGINE-MISMATCH|^KNOWN|exit=" /tmp/run_seed.out | head -8
echo "rc=$RC"
