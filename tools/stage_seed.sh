#!/bin/sh
# usage: stage_seed.sh <worktree-with-_seed> <pkgdir-for-demo>  -- confirms an incoming seed in a scratch worktree
S=$1/_seed
[ -f "$S/patch.diff" ] && [ -f "$S/demo_test.go" ] || { echo "incomplete seed in $S"; exit 3; }
exec /verif/tools/confirm_seed.sh "$S" "$2"
