#!/bin/sh
# usage: confirm_seed.sh <seed-dir> <pkgdir-for-demo>
# Confirms in a scratch worktree: patch applies, builds, existing tests pass, demo fails with and passes without.
set -u
export GOFLAGS=-mod=mod GOPROXY=off GOSUMDB=off GOTOOLCHAIN=local
SEED=$1; PKG=$2
WT=$(mktemp -d /tmp/confirm.XXXXXX)
git -C /repo worktree add --detach "$WT" HEAD >/dev/null 2>&1 || exit 3
trap 'git -C /repo worktree remove --force "$WT" >/dev/null 2>&1; rm -rf "$WT"' EXIT
cd "$WT"
cp "$SEED/demo_test.go" "$PKG/zz_demo_test.go"
go test -vet=off -count=1 "./$PKG/" >/tmp/confirm.out 2>&1 && echo "demo passes WITHOUT patch: ok" || { echo "demo FAILS without patch"; tail -5 /tmp/confirm.out; }
rm "$PKG/zz_demo_test.go"
git apply "$SEED/patch.diff" || { echo "patch does not apply"; exit 1; }
go build ./... >/tmp/confirm.out 2>&1 && echo "builds: ok" || { echo "BUILD FAILS"; tail -5 /tmp/confirm.out; }
go test -vet=off -count=1 ./... >/tmp/confirm.out 2>&1 && echo "existing tests pass with patch: ok" || { echo "EXISTING TESTS FAIL"; grep -v "no test files" /tmp/confirm.out | tail -8; }
cp "$SEED/demo_test.go" "$PKG/zz_demo_test.go"
go test -vet=off -count=1 "./$PKG/" >/tmp/confirm.out 2>&1 && echo "demo PASSES with patch (bad)" || echo "demo fails WITH patch: ok"
