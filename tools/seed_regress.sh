#!/bin/sh
# Re-runs every kept seed against the quick check of its property (applies the patch to /repo,
# runs the check, reverts). Writes /verif/seeded/RESULTS.md. Do not run other checks meanwhile.
cd /verif
OUT=seeded/RESULTS.md
echo "| seed | property | quick check on the seeded tree |" > $OUT
echo "|---|---|---|" >> $OUT
for d in /verif/seeded/C*-*/; do
  id=$(basename $d); prop=$(python3 -c "import json;print(json.load(open('$d/meta.json'))['property'])")
  if ! git -C /repo apply --check $d/patch.diff 2>/dev/null; then echo "| $id | $prop | patch no longer applies to HEAD |" >> $OUT; continue; fi
  git -C /repo apply $d/patch.diff
  ./check $prop quick > /tmp/regress_$id.log 2>&1; rc=$?
  git -C /repo checkout -- .
  v=$(grep -c '^VIOLATION' /tmp/regress_$id.log)
  echo "| $id | $prop | exit $rc, $v VIOLATION line(s) |" >> $OUT
  echo "$id rc=$rc violations=$v"
done
