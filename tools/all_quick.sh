#!/bin/sh
# runs every registered quick check once and prints a one-line summary per property
cd /verif
for p in $(python3 -c "import json;print(' '.join(c['property_id'] for c in json.load(open('MANIFEST.json'))['checks']))"); do
  T0=$(date +%s)
  ./check $p ${1:-quick} > /tmp/all_$p.log 2>&1
  RC=$?
  echo "$p rc=$RC $(( $(date +%s) - T0 ))s $(grep -cE '^KNOWN-FINDING' /tmp/all_$p.log) known $(grep -E '^(VIOLATION|INCONCLUSIVE|ENGINE-MISMATCH)' /tmp/all_$p.log | head -2 | cut -c1-160 | tr '\n' '|')"
done
