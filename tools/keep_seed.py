#!/usr/bin/env python3
# usage: keep_seed.py <src-dir> <dest-id> <prop> <demo-pkg> "<needs>" "<caught-by>"
import sys,os,shutil,json
src,dest,prop,pkg,needs,caught=sys.argv[1:7]
d=f"/verif/seeded/{dest}"
os.makedirs(d,exist_ok=True)
for f in ("patch.diff","demo_test.go","notes.md"):
    if os.path.exists(os.path.join(src,f)): shutil.copy(os.path.join(src,f),os.path.join(d,f))
os.rename(os.path.join(d,"demo_test.go"),os.path.join(d,"demo_test.go.txt"))
json.dump({"property":prop,"breaks":open(os.path.join(src,"notes.md")).read()[:600],"needs_to_manifest":needs,
 "demo":"demo_test.go.txt (drop into "+pkg+"/ as *_test.go)","ran":["tools/confirm_seed.sh: patch applies to HEAD, go build ./... ok, existing go test ./... passes with patch, demo fails with patch and passes without","tools/run_seed.sh "+prop+" <patch>: "+caught]},open(os.path.join(d,"meta.json"),"w"),indent=1)
print("kept",d)
