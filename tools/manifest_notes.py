#!/usr/bin/env python3
# refreshes the "harnesses: ..." prefix of every check's level_note in MANIFEST.json from harness/props.json
import json,re
m=json.load(open('/verif/MANIFEST.json'))
d=json.load(open('/verif/harness/props.json'))
for c in m['checks']:
    hs=sorted(set(h['fn'].split('.')[-1] for h in d[c['property_id']]['harnesses']))
    c['level_note']=re.sub(r'^harnesses: [^.]*\.','harnesses: '+', '.join(hs)+'.',c['level_note'])
json.dump(m,open('/verif/MANIFEST.json','w'),indent=1)
