package interp

// Models of third-party libraries: protobuf (typed deep snapshot), gotomic.Hash
// (linearizable map), memberlist.TransmitLimitedQueue (FIFO), sha256 (real
// digest of pinned input), uuid (fresh ids).

import (
	"crypto/sha256"
	"fmt"
	"go/types"
	"reflect"
	"strings"

	"symx/term"
)


// ---------- protobuf ----------

// pbsnap is an immutable deep copy of a message's proto fields.
type pbsnap struct {
	typ    *types.Struct
	named  types.Type
	fields []value // indexed like the struct; non-proto fields nil
}

// blobByte is an element of a marshalled buffer: opaque, copyable, and pointing back at the snapshot.
type blobByte struct {
	snap *pbsnap
	idx  int
}

func protoFieldTag(st *types.Struct, k int) bool {
	return strings.Contains(reflect.StructTag(st.Tag(k)).Get("protobuf"), ",") || reflect.StructTag(st.Tag(k)).Get("protobuf_key") != ""
}

func structOfMsg(t types.Type) (*types.Struct, types.Type) {
	if p, ok := t.Underlying().(*types.Pointer); ok {
		if st, ok := p.Elem().Underlying().(*types.Struct); ok {
			return st, p.Elem()
		}
	}
	return nil, nil
}

// snapField deep-copies v of static type t; def accumulates "is default" as (concrete, term).
func (i *interpreter) snapField(t types.Type, v value, defC *bool, defT **term.Term) value {
	note := func(c bool, tm *term.Term) {
		*defC = *defC && c
		*defT = i.andOpt(*defT, c, tm)
	}
	switch ut := t.Underlying().(type) {
	case *types.Basic:
		switch x := v.(type) {
		case sv:
			w, _, _ := kindOf(x.c)
			if w == 0 {
				note(!x.c.(bool), i.tb.Not(x.t))
			} else {
				note(toBits(x.c) == 0, i.tb.Eq(x.t, i.tb.BV(w, 0)))
			}
		case string, sstr:
			note(strLen(x) == 0, nil)
		case bool:
			note(!x, nil)
		case float32:
			note(x == 0, nil)
		case float64:
			note(x == 0, nil)
		case blobByte:
			note(false, nil)
		default:
			note(toBits(x) == 0, nil)
		}
		return v
	case *types.Slice:
		s, _ := v.([]value)
		note(len(s) == 0, nil)
		if len(s) == 0 {
			return []value(nil)
		}
		out := make([]value, len(s))
		var dc bool
		var dt *term.Term
		for k, e := range s {
			if st, _ := structOfMsg(ut.Elem()); st != nil {
				out[k] = i.snapMsg(ut.Elem(), e, true)
			} else {
				dc, dt = true, nil
				out[k] = i.snapField(ut.Elem(), e, &dc, &dt)
			}
		}
		return out
	case *types.Pointer:
		if st, _ := structOfMsg(t); st != nil {
			p := v.(*value)
			note(p == nil, nil)
			if p == nil {
				return (*pbsnap)(nil)
			}
			return i.snapMsg(t, v, false)
		}
	case *types.Map:
		m, _ := v.(*omap)
		note(m.len() == 0, nil)
		if m.len() == 0 {
			return (*omap)(nil)
		}
		out := makeMap(ut.Key(), 0).(*omap)
		var dc bool
		var dt *term.Term
		for _, e := range m.entries {
			dc, dt = true, nil
			var val value
			if st, _ := structOfMsg(ut.Elem()); st != nil {
				val = i.snapMsg(ut.Elem(), e.val, true)
			} else {
				val = i.snapField(ut.Elem(), e.val, &dc, &dt)
			}
			out.insert(i, e.key, val, "proto-map")
		}
		return out
	case *types.Interface:
		// oneof: not used by wasp
		if v.(iface).t == nil {
			return v
		}
	}
	unsupported("protobuf model: field of type %s", t)
	return nil
}

// snapMsg snapshots the message pointed to by v (static type t = *T). nilAsEmpty: a nil element of a repeated field.
func (i *interpreter) snapMsg(t types.Type, v value, nilAsEmpty bool) *pbsnap {
	st, named := structOfMsg(t)
	s := &pbsnap{typ: st, named: named, fields: make([]value, st.NumFields())}
	p := v.(*value)
	var src structure
	if p == nil {
		src = zero(named).(structure)
	} else {
		src = (*p).(structure)
	}
	dc := true
	var dt *term.Term
	for k := 0; k < st.NumFields(); k++ {
		if !protoFieldTag(st, k) {
			continue
		}
		s.fields[k] = i.snapField(st.Field(k).Type(), src[k], &dc, &dt)
	}
	return s
}

// isDefault recomputes whether the snapshot encodes to zero bytes.
func (i *interpreter) snapDefault(t types.Type, v value) (bool, *term.Term) {
	st, named := structOfMsg(t)
	p := v.(*value)
	if p == nil {
		return true, nil
	}
	src := (*p).(structure)
	_ = named
	dc := true
	var dt *term.Term
	for k := 0; k < st.NumFields(); k++ {
		if !protoFieldTag(st, k) {
			continue
		}
		i.snapField(st.Field(k).Type(), src[k], &dc, &dt)
	}
	return dc, dt
}

func (i *interpreter) rebuildField(t types.Type, v value) value {
	switch ut := t.Underlying().(type) {
	case *types.Basic:
		return v
	case *types.Slice:
		s, _ := v.([]value)
		if len(s) == 0 {
			return []value(nil)
		}
		out := make([]value, len(s))
		for k, e := range s {
			if st, _ := structOfMsg(ut.Elem()); st != nil {
				out[k] = i.rebuildMsg(e.(*pbsnap))
			} else {
				out[k] = i.rebuildField(ut.Elem(), e)
			}
		}
		return out
	case *types.Pointer:
		s := v.(*pbsnap)
		if s == nil {
			return (*value)(nil)
		}
		return i.rebuildMsg(s)
	case *types.Map:
		m, _ := v.(*omap)
		if m.len() == 0 {
			return (*omap)(nil)
		}
		out := makeMap(ut.Key(), 0).(*omap)
		for _, e := range m.entries {
			var val value
			if st, _ := structOfMsg(ut.Elem()); st != nil {
				val = i.rebuildMsg(e.val.(*pbsnap))
			} else {
				val = i.rebuildField(ut.Elem(), e.val)
			}
			out.insert(i, e.key, val, "proto-map")
		}
		return out
	case *types.Interface:
		return v
	}
	unsupported("protobuf model: rebuild field of type %s", t)
	return nil
}

func (i *interpreter) rebuildMsg(s *pbsnap) *value {
	var cell value = zero(s.named)
	dst := cell.(structure)
	for k := 0; k < s.typ.NumFields(); k++ {
		if s.fields[k] != nil || protoFieldTag(s.typ, k) {
			if protoFieldTag(s.typ, k) {
				dst[k] = i.rebuildField(s.typ.Field(k).Type(), s.fields[k])
			}
		}
	}
	return &cell
}

func extProtoMarshal(fr *frame, args []value) value {
	i := fr.i
	m := args[0].(iface)
	if m.t == nil {
		return tuple{[]value(nil), i.makeError("proto: Marshal called with nil")}
	}
	st, _ := structOfMsg(m.t)
	if st == nil {
		unsupported("protobuf model: Marshal of %s", m.t)
	}
	if m.v.(*value) == nil {
		return tuple{[]value(nil), i.makeError("proto: Marshal called with nil")}
	}
	dc, dt := i.snapDefault(m.t, m.v)
	snap := i.snapMsg(m.t, m.v, false)
	if i.record(i.mk(dc, dt), RecIf, "proto-empty") {
		return tuple{make([]value, 0), iface{}}
	}
	return tuple{[]value{blobByte{snap, 0}}, iface{}}
}

func extProtoUnmarshal(fr *frame, args []value) value {
	i := fr.i
	buf, _ := args[0].([]value)
	m := args[1].(iface)
	st, named := structOfMsg(m.t)
	if st == nil || m.v.(*value) == nil {
		unsupported("protobuf model: Unmarshal into %v", m.t)
	}
	dst := m.v.(*value)
	if len(buf) == 0 {
		store(named, dst, zero(named))
		return iface{}
	}
	bb, ok := buf[0].(blobByte)
	if !ok || bb.idx != 0 || len(buf) != 1 {
		unsupported("protobuf model: Unmarshal of bytes that are not a whole marshalled message")
	}
	if !types.Identical(bb.snap.named, named) {
		unsupported("protobuf model: Unmarshal of %s into %s", bb.snap.named, named)
	}
	store(named, dst, *i.rebuildMsg(bb.snap))
	return iface{}
}

// ---------- gotomic.Hash ----------

type gotomicKey struct{ p *value }

func (i *interpreter) gotomicMap(p *value) *omap {
	return i.sideGet(gotomicKey{p}, func() interface{} {
		return &omap{keyType: types.NewInterfaceType(nil, nil)}
	}).(*omap)
}

// ---------- broadcast queue ----------

type bqKey struct{ p *value }

func initLibExternals() {
	for _, pkg := range []string{"github.com/golang/protobuf/proto", "github.com/gogo/protobuf/proto"} {
		externals[pkg+".Marshal"] = extProtoMarshal
		externals[pkg+".Unmarshal"] = extProtoUnmarshal
		externals[pkg+".Size"] = extProtoSize
	}
	for k, v := range map[string]externalFn{
		"github.com/zond/gotomic.NewHash": func(fr *frame, a []value) value {
			tp := fr.i.prog.ImportedPackage("github.com/zond/gotomic")
			var cell value = zero(tp.Type("Hash").Type())
			return &cell
		},
		"(*github.com/zond/gotomic.Hash).PutIfMissing": func(fr *frame, a []value) value {
			fr.i.preempt("gotomic")
			fr.i.hbAcquire(gotomicKey{ptrArg(a[0])})
			defer fr.i.hbRelease(gotomicKey{ptrArg(a[0])})
			m := fr.i.gotomicMap(ptrArg(a[0]))
			if e := m.find(fr.i, a[1], "gotomic"); e != nil {
				return false
			}
			m.insert(fr.i, a[1], a[2], "gotomic")
			return true
		},
		"(*github.com/zond/gotomic.Hash).Put": func(fr *frame, a []value) value {
			fr.i.preempt("gotomic")
			fr.i.hbAcquire(gotomicKey{ptrArg(a[0])})
			defer fr.i.hbRelease(gotomicKey{ptrArg(a[0])})
			m := fr.i.gotomicMap(ptrArg(a[0]))
			if e := m.find(fr.i, a[1], "gotomic"); e != nil {
				old := e.val
				e.val = a[2]
				return tuple{old, true}
			}
			m.insert(fr.i, a[1], a[2], "gotomic")
			return tuple{iface{}, false}
		},
		"(*github.com/zond/gotomic.Hash).Get": func(fr *frame, a []value) value {
			fr.i.preempt("gotomic")
			fr.i.hbAcquire(gotomicKey{ptrArg(a[0])})
			defer fr.i.hbRelease(gotomicKey{ptrArg(a[0])})
			m := fr.i.gotomicMap(ptrArg(a[0]))
			if e := m.find(fr.i, a[1], "gotomic"); e != nil {
				return tuple{e.val, true}
			}
			return tuple{iface{}, false}
		},
		"(*github.com/zond/gotomic.Hash).Delete": func(fr *frame, a []value) value {
			fr.i.preempt("gotomic")
			fr.i.hbAcquire(gotomicKey{ptrArg(a[0])})
			defer fr.i.hbRelease(gotomicKey{ptrArg(a[0])})
			m := fr.i.gotomicMap(ptrArg(a[0]))
			if e := m.find(fr.i, a[1], "gotomic"); e != nil {
				v := e.val
				e.deleted = true
				for j, x := range m.entries {
					if x == e {
						m.entries = append(m.entries[:j:j], m.entries[j+1:]...)
						break
					}
				}
				return tuple{v, true}
			}
			return tuple{iface{}, false}
		},
		"(*github.com/zond/gotomic.Hash).Size": func(fr *frame, a []value) value {
			return fr.i.gotomicMap(ptrArg(a[0])).len()
		},
		"(*github.com/hashicorp/memberlist.TransmitLimitedQueue).QueueBroadcast": func(fr *frame, a []value) value {
			k := bqKey{ptrArg(a[0])}
			l, _ := fr.i.side[k].([]value)
			nb := a[1].(iface)
			// as memberlist does: a new broadcast evicts every queued one it invalidates
			inv := fr.i.findMethod(nb.t, "Invalidates")
			kept := l[:0:0]
			for _, old := range l {
				if inv != nil && fr.i.cond(call(fr.i, fr, 0, inv, []value{nb.v, old})) {
					if fin := fr.i.findMethod(old.(iface).t, "Finished"); fin != nil {
						call(fr.i, fr, 0, fin, []value{old.(iface).v})
					}
					continue
				}
				kept = append(kept, old)
			}
			fr.i.side[k] = append(kept, a[1])
			return nil
		},
		"(*github.com/hashicorp/memberlist.TransmitLimitedQueue).NumQueued": func(fr *frame, a []value) value {
			l, _ := fr.i.side[bqKey{ptrArg(a[0])}].([]value)
			return len(l)
		},
		// rt.Drain(q) [][]byte: messages queued since the last drain, oldest first
		RT + ".Drain": func(fr *frame, a []value) value {
			q := a[0].(iface).v.(*value)
			k := bqKey{q}
			l, _ := fr.i.side[k].([]value)
			fr.i.side[k] = []value(nil)
			out := make([]value, 0, len(l))
			for _, b := range l {
				bi := b.(iface)
				f := fr.i.findMethod(bi.t, "Message")
				if f == nil {
					unsupported("broadcast without Message method")
				}
				out = append(out, call(fr.i, fr, 0, f, []value{bi.v}))
			}
			return out
		},
		"context.WithValue": func(fr *frame, a []value) value {
			// the real function only adds a reflect-based comparability check of the key
			cp := fr.i.prog.ImportedPackage("context")
			t := cp.Type("valueCtx").Type()
			var cell value = zero(t)
			st := cell.(structure)
			st[0], st[1], st[2] = a[0], a[1], a[2]
			return iface{t: types.NewPointer(t), v: &cell}
		},
		"crypto/sha256.Sum256": func(fr *frame, a []value) value {
			in := fr.i.concStr(bytesToStr(a[0].([]value)), "sha256 input")
			sum := sha256.Sum256([]byte(in))
			out := make(array, 32)
			for k := range out {
				out[k] = sum[k]
			}
			return out
		},
		"github.com/google/uuid.New": func(fr *frame, a []value) value {
			fr.i.fresh++
			out := make(array, 16)
			s := fmt.Sprintf("%016d", fr.i.fresh)
			for k := range out {
				out[k] = s[k]
			}
			return out
		},
		"github.com/google/uuid.NewString": func(fr *frame, a []value) value {
			fr.i.fresh++
			return fmt.Sprintf("uuid-%d", fr.i.fresh)
		},
	} {
		externals[k] = v
	}
}
