package interp

func initLibExternals() {}

func (i *interpreter) preemptMem(addr interface{}, write bool) {}

func schedChoice(i *interpreter, n int) int          { return 0 }
func preemptChoice(i *interpreter, what string) bool { return false }
