package interp

// Model of time.Time and timers over a virtual clock.
// A Time value keeps its real three-word struct shape: word0 (wall) holds the
// nanoseconds within the second, word1 (ext) the seconds since year 1, loc=nil.

import (
	"go/token"
	"go/types"

	"symx/term"
)

const unixToInternal int64 = (1969*365 + 1969/4 - 1969/100 + 1969/400) * 86400

type vtime struct{ sec, nsec value } // int64 each, possibly symbolic; 0 <= nsec < 1e9

var tInt64 = types.Typ[types.Int64]

func (i *interpreter) i64(op token.Token, a, b value) value { return i.binop(op, tInt64, a, b) }

func (i *interpreter) timeValue(t vtime) value {
	return structure{i.toUint64(t.nsec), t.sec, (*value)(nil)}
}

func (i *interpreter) toUint64(v value) value {
	if s, ok := v.(sv); ok {
		return i.mk(uint64(asInt64(s.c)), s.t)
	}
	return uint64(asInt64(v))
}

func (i *interpreter) timeOf(v value) vtime {
	st := v.(structure)
	return vtime{sec: st[1], nsec: i.toInt64(st[0])}
}

func (i *interpreter) cond(v value) bool { return i.record(v, RecIf, "time") }

// timeLT: a < b
func (i *interpreter) timeLTv(a, b vtime) value {
	lt := i.i64(token.LSS, a.sec, b.sec)
	eq := i.i64(token.EQL, a.sec, b.sec)
	nlt := i.i64(token.LSS, a.nsec, b.nsec)
	return i.boolOr(lt, i.boolAnd(eq, nlt))
}

func (i *interpreter) boolAnd(a, b value) value {
	if !isSym(a) && !isSym(b) {
		return a.(bool) && b.(bool)
	}
	return i.mk(conc(a).(bool) && conc(b).(bool), i.tb.And(i.termOf(a), i.termOf(b)))
}
func (i *interpreter) boolOr(a, b value) value {
	if !isSym(a) && !isSym(b) {
		return a.(bool) || b.(bool)
	}
	return i.mk(conc(a).(bool) || conc(b).(bool), i.tb.Or(i.termOf(a), i.termOf(b)))
}
func (i *interpreter) boolNot(a value) value {
	if s, ok := a.(sv); ok {
		return i.mk(!s.c.(bool), i.tb.Not(s.t))
	}
	return !a.(bool)
}

func (i *interpreter) timeLE(a, b vtime) bool { return i.cond(i.boolNot(i.timeLTv(b, a))) }

// timeAddNs adds a concrete number of nanoseconds.
func (i *interpreter) timeAddNs(t vtime, d int64) vtime {
	ds, dn := d/1e9, d%1e9
	sec := i.i64(token.ADD, t.sec, ds)
	nsec := i.i64(token.ADD, t.nsec, dn)
	if dn > 0 {
		if i.cond(i.i64(token.GEQ, nsec, int64(1e9))) {
			sec = i.i64(token.ADD, sec, int64(1))
			nsec = i.i64(token.SUB, nsec, int64(1e9))
		}
	} else if dn < 0 {
		if i.cond(i.i64(token.LSS, nsec, int64(0))) {
			sec = i.i64(token.SUB, sec, int64(1))
			nsec = i.i64(token.ADD, nsec, int64(1e9))
		}
	}
	return vtime{sec, nsec}
}

func (i *interpreter) durArg(v value, what string) int64 {
	return asInt64(i.concretize(v, what))
}

func (i *interpreter) newTimer(d int64, period int64, fn value, buffered bool) *vtimer {
	t := &vtimer{when: i.timeAddNs(i.now, d), period: period, fn: fn}
	if fn == nil {
		t.ch = &channel{cap: 1, elem: nil}
		i.nchan++
		t.ch.id = i.nchan
	}
	i.timers = append(i.timers, t)
	return t
}

type timerKey struct{ p *value }

func initTimeExternals() {
	for k, v := range map[string]externalFn{
		"time.Now": func(fr *frame, a []value) value {
			// a strictly increasing clock: two readings never coincide (as with a nanosecond
			// wall clock); larger steps are taken by the harness through rt.SetNow
			fr.i.now = fr.i.timeAddNs(fr.i.now, 1)
			return fr.i.timeValue(fr.i.now)
		},
		"time.Unix": func(fr *frame, a []value) value {
			i := fr.i
			sec, nsec := i.toInt64(a[0]), i.toInt64(a[1])
			inr := i.boolAnd(i.i64(token.GEQ, nsec, int64(0)), i.i64(token.LSS, nsec, int64(1e9)))
			if !i.record(inr, RecBounds, "time.Unix") {
				n := asInt64(i.concretize(nsec, "time.Unix nsec"))
				q := n / 1e9
				n -= q * 1e9
				if n < 0 {
					n += 1e9
					q--
				}
				sec = i.i64(token.ADD, sec, q)
				nsec = n
			}
			return i.timeValue(vtime{i.i64(token.ADD, sec, unixToInternal), nsec})
		},
		"(time.Time).Add": func(fr *frame, a []value) value {
			i := fr.i
			if d, ok := a[1].(sv); ok {
				// a symbolic duration that is visibly a whole number of seconds (x * c, 1e9 | c)
				// is added to the seconds word without any division
				if secs := i.wholeSeconds(d); secs != nil {
					t := i.timeOf(a[0])
					return i.timeValue(vtime{i.i64(token.ADD, t.sec, secs), t.nsec})
				}
			}
			return i.timeValue(i.timeAddNs(i.timeOf(a[0]), i.durArg(a[1], "Time.Add duration")))
		},
		"(time.Time).Sub": func(fr *frame, a []value) value {
			i := fr.i
			t, u := i.timeOf(a[0]), i.timeOf(a[1])
			ds := i.i64(token.SUB, t.sec, u.sec)
			dn := i.i64(token.SUB, t.nsec, u.nsec)
			return i.i64(token.ADD, i.i64(token.MUL, ds, int64(1e9)), dn)
		},
		"(time.Time).Before": func(fr *frame, a []value) value {
			return fr.i.timeLTv(fr.i.timeOf(a[0]), fr.i.timeOf(a[1]))
		},
		"(time.Time).After": func(fr *frame, a []value) value {
			return fr.i.timeLTv(fr.i.timeOf(a[1]), fr.i.timeOf(a[0]))
		},
		"(time.Time).Equal": func(fr *frame, a []value) value {
			i := fr.i
			t, u := i.timeOf(a[0]), i.timeOf(a[1])
			return i.boolAnd(i.i64(token.EQL, t.sec, u.sec), i.i64(token.EQL, t.nsec, u.nsec))
		},
		"(time.Time).Compare": func(fr *frame, a []value) value {
			i := fr.i
			t, u := i.timeOf(a[0]), i.timeOf(a[1])
			if i.cond(i.timeLTv(t, u)) {
				return -1
			}
			if i.cond(i.timeLTv(u, t)) {
				return 1
			}
			return 0
		},
		"(time.Time).IsZero": func(fr *frame, a []value) value {
			i := fr.i
			t := i.timeOf(a[0])
			return i.boolAnd(i.i64(token.EQL, t.sec, int64(0)), i.i64(token.EQL, t.nsec, int64(0)))
		},
		"(time.Time).Unix": func(fr *frame, a []value) value {
			return fr.i.i64(token.SUB, fr.i.timeOf(a[0]).sec, unixToInternal)
		},
		"(time.Time).UnixNano": func(fr *frame, a []value) value {
			i := fr.i
			t := i.timeOf(a[0])
			return i.i64(token.ADD, i.i64(token.MUL, i.i64(token.SUB, t.sec, unixToInternal), int64(1e9)), t.nsec)
		},
		"(time.Time).Nanosecond": func(fr *frame, a []value) value {
			return fr.i.conv(types.Typ[types.Int], tInt64, fr.i.timeOf(a[0]).nsec)
		},
		"(time.Time).Round": func(fr *frame, a []value) value {
			i := fr.i
			t := i.timeOf(a[0])
			d := i.durArg(a[1], "Time.Round")
			if d <= 0 {
				return a[0]
			}
			if d != 1e9 {
				unsupported("Time.Round(%d): only whole seconds are modelled", d)
			}
			if i.cond(i.i64(token.LSS, i.i64(token.ADD, t.nsec, t.nsec), int64(1e9))) {
				return i.timeValue(vtime{t.sec, int64(0)})
			}
			return i.timeValue(vtime{i.i64(token.ADD, t.sec, int64(1)), int64(0)})
		},
		"(time.Time).Truncate": func(fr *frame, a []value) value {
			i := fr.i
			t := i.timeOf(a[0])
			d := i.durArg(a[1], "Time.Truncate")
			if d <= 0 {
				return a[0]
			}
			if d != 1e9 {
				unsupported("Time.Truncate(%d): only whole seconds are modelled", d)
			}
			return i.timeValue(vtime{t.sec, int64(0)})
		},
		"time.Since": func(fr *frame, a []value) value {
			return externals["(time.Time).Sub"](fr, []value{fr.i.timeValue(fr.i.now), a[0]})
		},
		"time.Until": func(fr *frame, a []value) value {
			return externals["(time.Time).Sub"](fr, []value{a[0], fr.i.timeValue(fr.i.now)})
		},
		"time.Sleep": func(fr *frame, a []value) value {
			i := fr.i
			until := i.timeAddNs(i.now, i.durArg(a[0], "Sleep"))
			i.block("sleep", func() bool { return !conc(i.timeLTv(i.now, until)).(bool) })
			i.cond(i.boolNot(i.timeLTv(i.now, until)))
			return nil
		},
		"time.After": func(fr *frame, a []value) value {
			return fr.i.newTimer(fr.i.durArg(a[0], "After"), 0, nil, true).ch
		},
		"time.Tick": func(fr *frame, a []value) value {
			d := fr.i.durArg(a[0], "Tick")
			return fr.i.newTimer(d, d, nil, true).ch
		},
		"time.NewTimer": func(fr *frame, a []value) value {
			return fr.i.timerStruct(fr, "Timer", fr.i.newTimer(fr.i.durArg(a[0], "NewTimer"), 0, nil, true))
		},
		"time.NewTicker": func(fr *frame, a []value) value {
			d := fr.i.durArg(a[0], "NewTicker")
			if d <= 0 {
				panic(runtimeError("non-positive interval for NewTicker"))
			}
			return fr.i.timerStruct(fr, "Ticker", fr.i.newTimer(d, d, nil, true))
		},
		"time.AfterFunc": func(fr *frame, a []value) value {
			return fr.i.timerStruct(fr, "Timer", fr.i.newTimer(fr.i.durArg(a[0], "AfterFunc"), 0, a[1], false))
		},
		"(*time.Timer).Stop": func(fr *frame, a []value) value {
			t, _ := fr.i.side[timerKey{ptrArg(a[0])}].(*vtimer)
			if t == nil {
				return false
			}
			was := !t.stopped && !t.fired
			t.stopped = true
			return was
		},
		"(*time.Timer).Reset": func(fr *frame, a []value) value {
			t, _ := fr.i.side[timerKey{ptrArg(a[0])}].(*vtimer)
			if t == nil {
				unsupported("Reset of unknown timer")
			}
			was := !t.stopped && !t.fired
			t.stopped, t.fired = false, false
			t.when = fr.i.timeAddNs(fr.i.now, fr.i.durArg(a[1], "Reset"))
			return was
		},
		"(*time.Ticker).Stop": func(fr *frame, a []value) value {
			if t, _ := fr.i.side[timerKey{ptrArg(a[0])}].(*vtimer); t != nil {
				t.stopped = true
			}
			return nil
		},
	} {
		externals[k] = v
	}
}

// timerStruct builds a *time.Timer / *time.Ticker whose C field is the model channel.
func (i *interpreter) timerStruct(fr *frame, name string, t *vtimer) value {
	tp := i.prog.ImportedPackage("time")
	typ := tp.Type(name).Type()
	var cell value = zero(typ)
	st := cell.(structure)
	if t.ch != nil {
		t.ch.elem = tp.Type("Time").Type()
		st[0] = t.ch
	}
	p := &cell
	i.side[timerKey{p}] = t
	return p
}

// extSetNow(sec, nsec): set the virtual clock (unix seconds, nanoseconds) and fire due timers.
func extSetNow(fr *frame, args []value) value {
	i := fr.i
	sec, nsec := i.toInt64(args[0]), i.toInt64(args[1])
	inr := i.boolAnd(i.i64(token.GEQ, nsec, int64(0)), i.i64(token.LSS, nsec, int64(1e9)))
	if !i.record(inr, RecIf, "SetNow") {
		panic(abortPath{Status: "assume-failed"})
	}
	nt := vtime{i.i64(token.ADD, sec, unixToInternal), nsec}
	// the clock never goes back: an instant that is not later than the present leaves it alone
	if i.timeLE(i.now, nt) {
		i.now = nt
	}
	i.fireTimers()
	return nil
}

var _ = term.Const

// wholeSeconds recognises d = x * c with c a multiple of 1e9 and returns x * (c/1e9), else nil.
func (i *interpreter) wholeSeconds(d sv) value {
	t := d.t
	if t.Op != term.BvMul || t.W != 64 {
		return nil
	}
	for k := 0; k < 2; k++ {
		c, x := t.A[k], t.A[1-k]
		if c.Op == term.Const && c.V != 0 && int64(c.V) > 0 && int64(c.V)%1e9 == 0 {
			q := int64(c.V) / 1e9
			conc := asInt64(d.c) / 1e9
			if asInt64(d.c)%1e9 != 0 {
				return nil
			}
			return i.mk(conc, i.tb.Bin(term.BvMul, x, i.tb.BV(64, uint64(q))))
		}
	}
	return nil
}
