package interp

// Deterministic, insertion-ordered map supporting symbolic keys.

import (
	"go/types"

	"symx/term"
)

type mentry struct {
	key, val value
	deleted  bool
}

type omap struct {
	keyType types.Type
	entries []*mentry
	idx     map[value]*mentry // fast path: concrete keys of basic/pointer/chan types
	fast    bool              // idx usable (key type hashes natively and no symbolic key stored)
}

func fastKeyType(t types.Type) bool {
	switch t := t.Underlying().(type) {
	case *types.Basic:
		return t.Info()&(types.IsFloat|types.IsComplex) == 0
	case *types.Pointer, *types.Chan:
		return true
	}
	return false
}

func makeMap(kt types.Type, reserve int64) value {
	m := &omap{keyType: kt, fast: fastKeyType(kt)}
	if m.fast {
		m.idx = make(map[value]*mentry)
	}
	return m
}

func (m *omap) len() int {
	if m == nil {
		return 0
	}
	return len(m.entries)
}

// find locates the entry equal to k, recording a key record per symbolic comparison.
func (m *omap) find(i *interpreter, k value, site string) *mentry {
	if m == nil {
		return nil
	}
	if m.fast && !isSym(k) {
		return m.idx[k]
	}
	for _, e := range m.entries {
		c, t := i.eqTerm(m.keyType, k, e.key)
		if t != nil {
			i.addRecord(Record{Cond: t, Taken: c, Kind: RecKey, Site: site})
		}
		if c {
			return e
		}
	}
	return nil
}

func (m *omap) lookup(i *interpreter, k value, site string) (value, bool) {
	e := m.find(i, k, site)
	if e == nil {
		return nil, false
	}
	return e.val, true
}

func (m *omap) insert(i *interpreter, k, v value, site string) {
	if m == nil {
		panic(runtimeError("assignment to entry in nil map"))
	}
	if e := m.find(i, k, site); e != nil {
		e.val = v
		return
	}
	e := &mentry{key: k, val: v}
	m.entries = append(m.entries, e)
	if m.fast {
		if isSym(k) {
			// a symbolic key is now stored: every later lookup must compare terms
			m.fast = false
			m.idx = nil
		} else {
			m.idx[k] = e
		}
	}
}

func (m *omap) delete(i *interpreter, k value, site string) {
	if m == nil {
		return
	}
	e := m.find(i, k, site)
	if e == nil {
		return
	}
	e.deleted = true
	for j, x := range m.entries {
		if x == e {
			m.entries = append(m.entries[:j:j], m.entries[j+1:]...)
			break
		}
	}
	if m.fast {
		delete(m.idx, k)
	}
}

type omapIter struct {
	snap []*mentry
	pos  int
}

func (it *omapIter) next() tuple {
	for it.pos < len(it.snap) {
		e := it.snap[it.pos]
		it.pos++
		if e.deleted {
			continue
		}
		return tuple{true, e.key, e.val}
	}
	return tuple{false, nil, nil}
}

var _ = term.Const
