package interp

// Models of sync and sync/atomic known to the scheduler.

import (
	"go/token"
	"go/types"

	"golang.org/x/tools/go/ssa"
)

type wgState struct{ n int64 }
type onceState struct{ done, running bool }

func (i *interpreter) sideGet(key interface{}, mk func() interface{}) interface{} {
	v, ok := i.side[key]
	if !ok {
		v = mk()
		i.side[key] = v
	}
	return v
}

type wgKey struct{ p *value }
type onceKey struct{ p *value }
type avKey struct{ p *value }

func ptrArg(v value) *value {
	p := v.(*value)
	if p == nil {
		panic(runtimeError("invalid memory address or nil pointer dereference"))
	}
	return p
}

func initSyncExternals() {
	for k, v := range map[string]externalFn{
		"(*sync.Mutex).Lock":   func(fr *frame, a []value) value { fr.i.lock(ptrArg(a[0])); return nil },
		"(*sync.Mutex).Unlock": func(fr *frame, a []value) value { fr.i.unlock(ptrArg(a[0])); return nil },
		"(*sync.Mutex).TryLock": func(fr *frame, a []value) value {
			m := fr.i.mutex(ptrArg(a[0]))
			if m.writer {
				return false
			}
			m.writer = true
			return true
		},
		"(*sync.RWMutex).Lock":    func(fr *frame, a []value) value { fr.i.lock(ptrArg(a[0])); return nil },
		"(*sync.RWMutex).Unlock":  func(fr *frame, a []value) value { fr.i.unlock(ptrArg(a[0])); return nil },
		"(*sync.RWMutex).RLock":   func(fr *frame, a []value) value { fr.i.rlock(ptrArg(a[0])); return nil },
		"(*sync.RWMutex).RUnlock": func(fr *frame, a []value) value { fr.i.runlock(ptrArg(a[0])); return nil },
		"(*sync.WaitGroup).Add": func(fr *frame, a []value) value {
			w := fr.i.sideGet(wgKey{ptrArg(a[0])}, func() interface{} { return &wgState{} }).(*wgState)
			w.n += asInt64(fr.i.concretize(a[1], "wg.Add"))
			if w.n < 0 {
				panic(runtimeError("sync: negative WaitGroup counter"))
			}
			return nil
		},
		"(*sync.WaitGroup).Done": func(fr *frame, a []value) value {
			w := fr.i.sideGet(wgKey{ptrArg(a[0])}, func() interface{} { return &wgState{} }).(*wgState)
			w.n--
			if w.n < 0 {
				panic(runtimeError("sync: negative WaitGroup counter"))
			}
			fr.i.hbRelease(w)
			return nil
		},
		"(*sync.WaitGroup).Wait": func(fr *frame, a []value) value {
			w := fr.i.sideGet(wgKey{ptrArg(a[0])}, func() interface{} { return &wgState{} }).(*wgState)
			fr.i.block("waitgroup", func() bool { return w.n == 0 })
			fr.i.hbAcquire(w)
			return nil
		},
		"(*sync.Once).Do": func(fr *frame, a []value) value {
			o := fr.i.sideGet(onceKey{ptrArg(a[0])}, func() interface{} { return &onceState{} }).(*onceState)
			if o.done {
				return nil
			}
			if o.running {
				fr.i.block("once", func() bool { return o.done })
				return nil
			}
			o.running = true
			defer func() { o.done = true; o.running = false }()
			call(fr.i, fr, token.NoPos, a[1], nil)
			return nil
		},
		"(*sync.Pool).Get": func(fr *frame, a []value) value {
			p := *ptrArg(a[0])
			st := p.(structure)
			newf := st[len(st)-1]
			switch f := newf.(type) {
			case *closure:
				return call(fr.i, fr, token.NoPos, f, nil)
			default:
				if !isNilFunc(f) {
					return call(fr.i, fr, token.NoPos, f, nil)
				}
			}
			return iface{}
		},
		"(*sync.Pool).Put": func(fr *frame, a []value) value { return nil },

		"(*sync/atomic.Value).Load": func(fr *frame, a []value) value {
			if v, ok := fr.i.side[avKey{ptrArg(a[0])}]; ok {
				return v.(iface)
			}
			return iface{}
		},
		"(*sync/atomic.Value).Store": func(fr *frame, a []value) value {
			fr.i.side[avKey{ptrArg(a[0])}] = a[1].(iface)
			return nil
		},
		"(*sync/atomic.Value).CompareAndSwap": func(fr *frame, a []value) value {
			k := avKey{ptrArg(a[0])}
			cur, _ := fr.i.side[k].(iface)
			old := a[1].(iface)
			if sameType(cur.t, old.t) && (cur.t == nil || equals(cur.t, cur.v, old.v)) {
				fr.i.side[k] = a[2].(iface)
				return true
			}
			return false
		},
		"(*sync/atomic.Value).Swap": func(fr *frame, a []value) value {
			k := avKey{ptrArg(a[0])}
			cur, _ := fr.i.side[k].(iface)
			fr.i.side[k] = a[1].(iface)
			return cur
		},
	} {
		externals[k] = v
	}
	for _, ty := range []string{"Int32", "Int64", "Uint32", "Uint64", "Uintptr", "Pointer"} {
		ty := ty
		externals["sync/atomic.Load"+ty] = func(fr *frame, a []value) value { fr.i.preempt("atomic"); fr.i.hbAcquire(ptrArg(a[0])); return *ptrArg(a[0]) }
		externals["sync/atomic.Store"+ty] = func(fr *frame, a []value) value { fr.i.preempt("atomic"); *ptrArg(a[0]) = a[1]; fr.i.hbRelease(ptrArg(a[0])); return nil }
		externals["sync/atomic.Swap"+ty] = func(fr *frame, a []value) value {
			fr.i.preempt("atomic")
			p := ptrArg(a[0])
			fr.i.hbAcquire(p)
			defer fr.i.hbRelease(p)
			old := *p
			*p = a[1]
			return old
		}
		externals["sync/atomic.CompareAndSwap"+ty] = func(fr *frame, a []value) value {
			fr.i.preempt("atomic")
			p := ptrArg(a[0])
			fr.i.hbAcquire(p)
			defer fr.i.hbRelease(p)
			c, t := fr.i.eqTerm(types.Typ[types.Int64], *p, a[1])
			if t != nil {
				fr.i.addRecord(Record{Cond: t, Taken: c, Kind: RecIf})
			}
			if c {
				*p = a[2]
				return true
			}
			return false
		}
		if ty != "Pointer" {
			externals["sync/atomic.Add"+ty] = func(fr *frame, a []value) value {
				fr.i.preempt("atomic")
				p := ptrArg(a[0])
				fr.i.hbAcquire(p)
				defer fr.i.hbRelease(p)
				*p = fr.i.binop(token.ADD, nil, *p, a[1])
				return *p
			}
			externals["sync/atomic.And"+ty] = func(fr *frame, a []value) value {
				p := ptrArg(a[0])
				old := *p
				*p = fr.i.binop(token.AND, nil, *p, a[1])
				return old
			}
			externals["sync/atomic.Or"+ty] = func(fr *frame, a []value) value {
				p := ptrArg(a[0])
				old := *p
				*p = fr.i.binop(token.OR, nil, *p, a[1])
				return old
			}
		}
	}
}

func isNilFunc(f value) bool {
	switch f := f.(type) {
	case *ssa.Function:
		return f == nil
	case *closure:
		return f == nil
	case nativeFn:
		return f == nil
	}
	return true
}
