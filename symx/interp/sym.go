package interp

// Symbolic shadow values, branch records and term construction.

import (
	"fmt"
	"go/token"
	"go/types"

	"golang.org/x/tools/go/ssa"

	"symx/term"
)

// sv is a scalar (bool or integer) with a symbolic shadow term.
// c is the concrete Go value of the exact dynamic type; t is never nil.
type sv struct {
	c value
	t *term.Term
}

// sstr is a string some of whose bytes are symbolic. len(b)==len(s); nil = concrete byte.
type sstr struct {
	s string
	b []*term.Term
}

type RecKind uint8

const (
	RecIf RecKind = iota
	RecBounds
	RecConcretize
	RecKey
	RecSched
	RecAssume // never flipped
)

func (k RecKind) String() string {
	return [...]string{"if", "bounds", "concretize", "key", "sched", "assume"}[k]
}

// Record is one decision on the path that depended on symbolic data.
// The path condition conjunct is Cond if Taken, else not Cond.
type Record struct {
	Cond  *term.Term
	Taken bool
	Kind  RecKind
	Site  string
	Instr ssa.Instruction
	// for RecConcretize of an integer: the pinned term and its concrete value
	Sym  *term.Term
	Conc uint64
}

// abortPath unwinds a run without executing interpreted defers.
type abortPath struct {
	Status string // unsupported | assume-failed | bound-exceeded | deadlock | teardown | violation-stop
	Msg    string
}

func (a abortPath) Error() string { return a.Status + ": " + a.Msg }

func unsupported(format string, args ...interface{}) {
	panic(abortPath{Status: "unsupported", Msg: fmt.Sprintf(format, args...)})
}

// kindOf returns the bit width (0 = bool) and signedness of a concrete scalar.
func kindOf(c value) (w int, signed bool, ok bool) {
	switch c.(type) {
	case bool:
		return 0, false, true
	case int, int64:
		return 64, true, true
	case int8:
		return 8, true, true
	case int16:
		return 16, true, true
	case int32:
		return 32, true, true
	case uint, uint64, uintptr:
		return 64, false, true
	case uint8:
		return 8, false, true
	case uint16:
		return 16, false, true
	case uint32:
		return 32, false, true
	}
	return 0, false, false
}

func toBits(c value) uint64 {
	switch c := c.(type) {
	case bool:
		if c {
			return 1
		}
		return 0
	case int:
		return uint64(c)
	case int8:
		return uint64(c)
	case int16:
		return uint64(c)
	case int32:
		return uint64(c)
	case int64:
		return uint64(c)
	case uint:
		return uint64(c)
	case uint8:
		return uint64(c)
	case uint16:
		return uint64(c)
	case uint32:
		return uint64(c)
	case uint64:
		return c
	case uintptr:
		return uint64(c)
	}
	panic(fmt.Sprintf("toBits: %T", c))
}

// fromBits builds a concrete value with the dynamic type of exemplar.
func fromBits(exemplar value, bits uint64) value {
	switch exemplar.(type) {
	case bool:
		return bits != 0
	case int:
		return int(bits)
	case int8:
		return int8(bits)
	case int16:
		return int16(bits)
	case int32:
		return int32(bits)
	case int64:
		return int64(bits)
	case uint:
		return uint(bits)
	case uint8:
		return uint8(bits)
	case uint16:
		return uint16(bits)
	case uint32:
		return uint32(bits)
	case uint64:
		return bits
	case uintptr:
		return uintptr(bits)
	}
	panic(fmt.Sprintf("fromBits: %T", exemplar))
}

// conc strips the shadow.
func conc(v value) value {
	if s, ok := v.(sv); ok {
		return s.c
	}
	return v
}

func isSym(v value) bool {
	switch v.(type) {
	case sv, sstr:
		return true
	}
	return false
}

func (i *interpreter) termOf(v value) *term.Term {
	if s, ok := v.(sv); ok {
		return s.t
	}
	w, _, ok := kindOf(v)
	if !ok {
		unsupported("symbolic operation on %T", v)
	}
	if w == 0 {
		return i.tb.Bool(v.(bool))
	}
	return i.tb.BV(w, toBits(v))
}

func (i *interpreter) mk(c value, t *term.Term) value {
	if t == nil || t.IsConst() {
		return c
	}
	// sanity: width must match
	w, _, _ := kindOf(c)
	if w != t.W {
		panic(fmt.Sprintf("symx internal: width mismatch %T vs term width %d (%s)", c, t.W, t))
	}
	return sv{c, t}
}

// record appends a branch record for a symbolic condition and returns the concrete outcome.
func (i *interpreter) record(cond value, kind RecKind, site string) bool {
	s, ok := cond.(sv)
	if !ok {
		return cond.(bool)
	}
	b := s.c.(bool)
	i.addRecord(Record{Cond: s.t, Taken: b, Kind: kind, Site: site})
	return b
}

func (i *interpreter) addRecord(r Record) {
	if r.Cond.IsConst() {
		return
	}
	if r.Instr == nil {
		r.Instr = i.curInstr
	}
	i.path = append(i.path, r)
	if len(i.path) > i.cfg.MaxRecords {
		panic(abortPath{Status: "bound-exceeded", Msg: fmt.Sprintf("more than %d branch records", i.cfg.MaxRecords)})
	}
}

// concretize pins a symbolic integer to its concrete value (recorded, flippable).
func (i *interpreter) concretize(v value, site string) value {
	s, ok := v.(sv)
	if !ok {
		return v
	}
	w, _, _ := kindOf(s.c)
	if w == 0 {
		i.addRecord(Record{Cond: s.t, Taken: s.c.(bool), Kind: RecIf, Site: site})
		return s.c
	}
	i.addRecord(Record{Cond: i.tb.Eq(s.t, i.tb.BV(w, toBits(s.c))), Taken: true, Kind: RecConcretize, Site: site, Sym: s.t, Conc: toBits(s.c)})
	return s.c
}

// concStr pins every symbolic byte of a string.
func (i *interpreter) concStr(v value, site string) string {
	switch v := v.(type) {
	case string:
		return v
	case sstr:
		for k, t := range v.b {
			if t != nil {
				i.addRecord(Record{Cond: i.tb.Eq(t, i.tb.BV(8, uint64(v.s[k]))), Taken: true, Kind: RecConcretize, Site: site, Sym: t, Conc: uint64(v.s[k])})
			}
		}
		return v.s
	}
	panic(fmt.Sprintf("concStr: %T", v))
}

// checkIndex records the bounds condition 0 <= idx < n for a symbolic idx and
// concretizes idx. The concrete out-of-range case is left to the caller.
func (i *interpreter) checkIndex(idx value, n int, site string) int64 {
	if s, ok := idx.(sv); ok {
		w, signed, _ := kindOf(s.c)
		var inb *term.Term
		lim := i.tb.BV(w, uint64(n))
		if signed {
			inb = i.tb.And(i.tb.Cmp(term.BvSle, i.tb.BV(w, 0), s.t), i.tb.Cmp(term.BvSlt, s.t, lim))
		} else {
			inb = i.tb.Cmp(term.BvUlt, s.t, lim)
		}
		c := asInt64(s.c)
		i.addRecord(Record{Cond: inb, Taken: c >= 0 && c < int64(n), Kind: RecBounds, Site: site})
		if c >= 0 && c < int64(n) {
			i.concretize(idx, site)
		}
		return c
	}
	return asInt64(idx)
}

// ---- binary / unary ops on symbolic scalars ----

func (i *interpreter) symBinop(op token.Token, t types.Type, x, y value, site string) value {
	cx, cy := conc(x), conc(y)
	switch cx.(type) {
	case float32, float64, complex64, complex128:
		unsupported("symbolic float operation")
	}
	tb := i.tb
	switch op {
	case token.SHL, token.SHR:
		// shift count: may be any integer type; negative signed count panics.
		w, signed, _ := kindOf(cx)
		tx := i.termOf(x)
		cw, csigned, _ := kindOf(cy)
		ty := i.termOf(y)
		if csigned {
			neg := tb.Cmp(term.BvSlt, ty, tb.BV(cw, 0))
			if i.record(i.mk(asInt64(cy) < 0, neg), RecBounds, site) {
				panic("runtime error: negative shift amount")
			}
		}
		// normalise count to width w, saturating at w
		var cnt *term.Term
		if cw <= w {
			cnt = tb.ZExt(ty, w)
		} else {
			big := tb.Cmp(term.BvUle, tb.BV(cw, uint64(w)), ty)
			cnt = tb.Ite(big, tb.BV(w, uint64(w)), tb.Extract(ty, w-1, 0))
		}
		var r *term.Term
		if op == token.SHL {
			r = tb.Bin(term.BvShl, tx, cnt)
		} else if signed {
			r = tb.Bin(term.BvAShr, tx, cnt)
		} else {
			r = tb.Bin(term.BvLShr, tx, cnt)
		}
		return i.mk(binop(op, t, cx, cy), r)
	}
	w, signed, ok := kindOf(cx)
	if !ok {
		unsupported("symbolic binop on %T", cx)
	}
	tx, ty := i.termOf(x), i.termOf(y)
	if tx.W != ty.W {
		panic(fmt.Sprintf("symx internal: binop %s width mismatch %T %T", op, cx, cy))
	}
	var r *term.Term
	switch op {
	case token.ADD:
		r = tb.Bin(term.BvAdd, tx, ty)
	case token.SUB:
		r = tb.Bin(term.BvSub, tx, ty)
	case token.MUL:
		r = tb.Bin(term.BvMul, tx, ty)
	case token.QUO, token.REM:
		zero := tb.Eq(ty, tb.BV(w, 0))
		if i.record(i.mk(toBits(cy) == 0, zero), RecBounds, site) {
			panic(runtimeError("integer divide by zero"))
		}
		switch {
		case op == token.QUO && signed:
			r = tb.Bin(term.BvSDiv, tx, ty)
		case op == token.QUO:
			r = tb.Bin(term.BvUDiv, tx, ty)
		case signed:
			r = tb.Bin(term.BvSRem, tx, ty)
		default:
			r = tb.Bin(term.BvURem, tx, ty)
		}
	case token.AND:
		if w == 0 {
			r = tb.And(tx, ty)
		} else {
			r = tb.Bin(term.BvAnd, tx, ty)
		}
	case token.OR:
		if w == 0 {
			r = tb.Or(tx, ty)
		} else {
			r = tb.Bin(term.BvOr, tx, ty)
		}
	case token.XOR:
		r = tb.Bin(term.BvXor, tx, ty)
	case token.AND_NOT:
		r = tb.Bin(term.BvAnd, tx, tb.Un(term.BvNot, ty))
	case token.EQL:
		r = tb.Eq(tx, ty)
	case token.NEQ:
		r = tb.Not(tb.Eq(tx, ty))
	case token.LSS:
		r = tb.Cmp(pick(signed, term.BvSlt, term.BvUlt), tx, ty)
	case token.LEQ:
		r = tb.Cmp(pick(signed, term.BvSle, term.BvUle), tx, ty)
	case token.GTR:
		r = tb.Cmp(pick(signed, term.BvSlt, term.BvUlt), ty, tx)
	case token.GEQ:
		r = tb.Cmp(pick(signed, term.BvSle, term.BvUle), ty, tx)
	default:
		unsupported("symbolic binop %s", op)
	}
	return i.mk(binop(op, t, cx, cy), r)
}

type runtimeError string

func (e runtimeError) Error() string { return "runtime error: " + string(e) }
func (e runtimeError) RuntimeError() {}

func pick(c bool, a, b term.Op) term.Op {
	if c {
		return a
	}
	return b
}

func (i *interpreter) symUnop(op token.Token, x sv) value {
	tb := i.tb
	switch op {
	case token.SUB:
		return i.mk(fromBits(x.c, -toBits(x.c)), tb.Un(term.BvNeg, x.t))
	case token.NOT:
		return i.mk(!x.c.(bool), tb.Not(x.t))
	case token.XOR:
		return i.mk(fromBits(x.c, ^toBits(x.c)), tb.Un(term.BvNot, x.t))
	}
	unsupported("symbolic unop %s", op)
	return nil
}

func basicKindValue(k types.BasicKind) value {
	switch k {
	case types.Bool:
		return false
	case types.Int:
		return int(0)
	case types.Int8:
		return int8(0)
	case types.Int16:
		return int16(0)
	case types.Int32:
		return int32(0)
	case types.Int64:
		return int64(0)
	case types.Uint:
		return uint(0)
	case types.Uint8:
		return uint8(0)
	case types.Uint16:
		return uint16(0)
	case types.Uint32:
		return uint32(0)
	case types.Uint64:
		return uint64(0)
	case types.Uintptr:
		return uintptr(0)
	}
	return nil
}

// symConvInt converts a symbolic integer to the basic integer kind dst.
func (i *interpreter) symConvInt(dst *types.Basic, x sv) value {
	ex := basicKindValue(dst.Kind())
	if ex == nil {
		unsupported("conversion of symbolic integer to %s", dst)
	}
	dw, _, _ := kindOf(ex)
	sw, ssigned, _ := kindOf(x.c)
	if dw == 0 || sw == 0 {
		unsupported("bool conversion")
	}
	var t *term.Term
	switch {
	case dw == sw:
		t = x.t
	case dw < sw:
		t = i.tb.Extract(x.t, dw-1, 0)
	case ssigned:
		t = i.tb.SExt(x.t, dw)
	default:
		t = i.tb.ZExt(x.t, dw)
	}
	var bits uint64
	if ssigned {
		bits = uint64(asInt64(x.c))
	} else {
		bits = toBits(x.c)
	}
	return i.mk(fromBits(ex, bits), t)
}

// ---- strings ----

func mkStr(s string, b []*term.Term) value {
	for _, t := range b {
		if t != nil {
			return sstr{s, b}
		}
	}
	return s
}

func strParts(v value) (string, []*term.Term) {
	switch v := v.(type) {
	case string:
		return v, nil
	case sstr:
		return v.s, v.b
	}
	panic(fmt.Sprintf("strParts: %T", v))
}

func strLen(v value) int {
	s, _ := strParts(v)
	return len(s)
}

func (i *interpreter) byteTerm(s string, b []*term.Term, k int) *term.Term {
	if b != nil && b[k] != nil {
		return b[k]
	}
	return i.tb.BV(8, uint64(s[k]))
}

func (i *interpreter) strIndex(v value, k int) value {
	s, b := strParts(v)
	if b != nil && b[k] != nil {
		return sv{s[k], b[k]}
	}
	return s[k]
}

func strSlice(v value, lo, hi int) value {
	s, b := strParts(v)
	if b == nil {
		return s[lo:hi]
	}
	return mkStr(s[lo:hi], b[lo:hi])
}

func strConcat(x, y value) value {
	xs, xb := strParts(x)
	ys, yb := strParts(y)
	if xb == nil && yb == nil {
		return xs + ys
	}
	b := make([]*term.Term, len(xs)+len(ys))
	copy(b, xb)
	copy(b[len(xs):], yb)
	return mkStr(xs+ys, b)
}

// strEq returns concrete equality and its term (nil when concrete).
func (i *interpreter) strEq(x, y value) (bool, *term.Term) {
	xs, xb := strParts(x)
	ys, yb := strParts(y)
	if xb == nil && yb == nil {
		return xs == ys, nil
	}
	if len(xs) != len(ys) {
		return false, nil
	}
	t := i.tb.True()
	for k := range xs {
		t = i.tb.And(t, i.tb.Eq(i.byteTerm(xs, xb, k), i.byteTerm(ys, yb, k)))
	}
	return xs == ys, t
}

// strLess returns x<y (concrete, term).
func (i *interpreter) strLess(x, y value) (bool, *term.Term) {
	xs, xb := strParts(x)
	ys, yb := strParts(y)
	if xb == nil && yb == nil {
		return xs < ys, nil
	}
	n := len(xs)
	if len(ys) < n {
		n = len(ys)
	}
	t := i.tb.Bool(len(xs) < len(ys))
	for k := n - 1; k >= 0; k-- {
		a, b := i.byteTerm(xs, xb, k), i.byteTerm(ys, yb, k)
		t = i.tb.Ite(i.tb.Cmp(term.BvUlt, a, b), i.tb.True(), i.tb.Ite(i.tb.Eq(a, b), t, i.tb.False()))
	}
	return xs < ys, t
}

func (i *interpreter) symStrBinop(op token.Token, x, y value) value {
	switch op {
	case token.ADD:
		return strConcat(x, y)
	case token.EQL:
		c, t := i.strEq(x, y)
		return i.mk(c, t)
	case token.NEQ:
		c, t := i.strEq(x, y)
		if t == nil {
			return !c
		}
		return i.mk(!c, i.tb.Not(t))
	case token.LSS:
		c, t := i.strLess(x, y)
		return i.mk(c, t)
	case token.GTR:
		c, t := i.strLess(y, x)
		return i.mk(c, t)
	case token.LEQ:
		c, t := i.strLess(y, x)
		if t == nil {
			return !c
		}
		return i.mk(!c, i.tb.Not(t))
	case token.GEQ:
		c, t := i.strLess(x, y)
		if t == nil {
			return !c
		}
		return i.mk(!c, i.tb.Not(t))
	}
	unsupported("string op %s", op)
	return nil
}

// bytesToStr converts []value of bytes (possibly symbolic) to a string value.
func bytesToStr(x []value) value {
	bs := make([]byte, len(x))
	var b []*term.Term
	for k, e := range x {
		switch e := e.(type) {
		case byte:
			bs[k] = e
		case sv:
			bs[k] = e.c.(byte)
			if b == nil {
				b = make([]*term.Term, len(x))
			}
			b[k] = e.t
		default:
			unsupported("byte-level access to an opaque value (%T), e.g. a marshalled protobuf buffer", e)
		}
	}
	return mkStr(string(bs), b)
}

func strToBytes(v value) []value {
	s, b := strParts(v)
	res := make([]value, len(s))
	for k := 0; k < len(s); k++ {
		if b != nil && b[k] != nil {
			res[k] = sv{s[k], b[k]}
		} else {
			res[k] = s[k]
		}
	}
	return res
}

// ---- equality with terms ----

// eq returns the Go == of x and y for static type t as a value (bool or sv).
func (i *interpreter) eq(t types.Type, x, y value) value {
	c, tm := i.eqTerm(t, x, y)
	return i.mk(c, tm)
}

// eqTerm returns concrete equality and a term (nil if fully concrete).
func (i *interpreter) eqTerm(t types.Type, x, y value) (bool, *term.Term) {
	_, xs := x.(sv)
	_, ys := y.(sv)
	if xs || ys {
		cx, cy := conc(x), conc(y)
		return equals(t, cx, cy), i.tb.Eq(i.termOf(x), i.termOf(y))
	}
	switch x := x.(type) {
	case string, sstr:
		return i.strEq(x, y)
	case structure:
		y := y.(structure)
		st := t.Underlying().(*types.Struct)
		c := true
		var tm *term.Term
		for k, n := 0, st.NumFields(); k < n; k++ {
			f := st.Field(k)
			if f.Name() == "_" {
				continue
			}
			fc, ft := i.eqTerm(f.Type(), x[k], y[k])
			c = c && fc
			tm = i.andOpt(tm, fc, ft)
		}
		return c, tm
	case array:
		y := y.(array)
		et := t.Underlying().(*types.Array).Elem()
		c := true
		var tm *term.Term
		for k := range x {
			fc, ft := i.eqTerm(et, x[k], y[k])
			c = c && fc
			tm = i.andOpt(tm, fc, ft)
		}
		return c, tm
	case iface:
		y := y.(iface)
		if !sameType(x.t, y.t) {
			return false, nil
		}
		if x.t == nil {
			return true, nil
		}
		return i.eqTerm(x.t, x.v, y.v)
	}
	return equals(t, x, y), nil
}

// andOpt accumulates a conjunction where nil means "concretely known".
func (i *interpreter) andOpt(acc *term.Term, c bool, t *term.Term) *term.Term {
	if t == nil {
		if c {
			return acc
		}
		return i.tb.False()
	}
	if acc == nil {
		return t
	}
	return i.tb.And(acc, t)
}
