package interp

// Cooperative deterministic scheduler, channels, select, mutexes, virtual timers.

import (
	"fmt"
	"go/token"
	"go/types"

	"golang.org/x/tools/go/ssa"
)

type goroutine struct {
	id        int
	i         *interpreter
	resume    chan struct{}
	done      bool
	waitReady func() bool
	waitWhat  string
	entry     string
}

func (g *goroutine) park() {
	select {
	case <-g.resume:
	case <-g.i.dead:
		panic(abortPath{Status: "teardown"})
	}
}

func (g *goroutine) runnable() bool {
	return !g.done && (g.waitReady == nil || g.waitReady())
}

// spawn creates a goroutine that will run fn(args) when first scheduled.
func (i *interpreter) spawn(fn value, args []value, pos token.Pos, entry string) *goroutine {
	g := &goroutine{id: len(i.gs), i: i, resume: make(chan struct{}, 1), entry: entry}
	i.gs = append(i.gs, g)
	if len(i.gs) > i.cfg.MaxGoroutines {
		panic(abortPath{Status: "bound-exceeded", Msg: "too many goroutines"})
	}
	i.wg.Add(1)
	go func() {
		defer i.wg.Done()
		defer func() {
			r := recover()
			if a, ok := r.(abortPath); ok && a.Status == "teardown" {
				return
			}
			if i.finishedFlag {
				return
			}
			if r != nil {
				i.finish(r, g)
				return
			}
			g.done = true
			if g.id == 0 {
				i.finish(nil, g)
				return
			}
			// hand the baton on
			next := i.pickNext()
			if next == nil {
				i.finish(abortPath{Status: "deadlock", Msg: i.describeBlocked()}, g)
				return
			}
			i.cur = next
			next.resume <- struct{}{}
		}()
		g.park()
		call(i, nil, pos, fn, args)
	}()
	return g
}

func (i *interpreter) pickNext() *goroutine {
	if i.cfg.Sched != nil {
		var cands []*goroutine
		for _, g := range i.gs {
			if g.runnable() {
				cands = append(cands, g)
			}
		}
		if len(cands) == 0 {
			return nil
		}
		return cands[i.cfg.Sched(i, len(cands))]
	}
	for _, g := range i.gs {
		if g.runnable() {
			return g
		}
	}
	return nil
}

func (i *interpreter) describeBlocked() string {
	s := ""
	for _, g := range i.gs {
		if !g.done {
			s += fmt.Sprintf("[g%d %s: %s] ", g.id, g.entry, g.waitWhat)
		}
	}
	return s
}

// block parks the current goroutine until ready() holds.
func (i *interpreter) block(what string, ready func() bool) {
	g := i.cur
	for !ready() {
		g.waitReady, g.waitWhat = ready, what
		i.switchAway()
		g.waitReady, g.waitWhat = nil, ""
	}
}

// yield lets other runnable goroutines run (current stays runnable).
func (i *interpreter) yield() {
	g := i.cur
	// current stays runnable but gives way: run another runnable goroutine (solver-chosen in explored mode)
	var others []*goroutine
	for _, h := range i.gs {
		if h != g && h.runnable() {
			others = append(others, h)
		}
	}
	if len(others) == 0 {
		return
	}
	h := others[0]
	if i.cfg.Sched != nil {
		h = others[i.cfg.Sched(i, len(others))]
	}
	i.cur = h
	h.resume <- struct{}{}
	g.park()
}

func (i *interpreter) switchAway() {
	g := i.cur
	next := i.pickNext()
	if next == nil {
		panic(abortPath{Status: "deadlock", Msg: i.describeBlocked()})
	}
	if next == g {
		return
	}
	i.cur = next
	next.resume <- struct{}{}
	g.park()
}

func (i *interpreter) anyOtherRunnable(g *goroutine) bool {
	for _, h := range i.gs {
		if h != g && h.runnable() {
			return true
		}
	}
	return false
}

// quiesce runs every other goroutine until all of them are blocked.
func (i *interpreter) quiesce() {
	g := i.cur
	i.block("quiesce", func() bool { return !i.anyOtherRunnable(g) })
}

// ---- channels ----

type selState struct {
	fired   int // -1 until completed
	recvVal value
	recvOK  bool
	closedP bool // send on closed channel -> panic on wake
}

type waiter struct {
	sel     *selState
	caseIdx int
	val     value // for sends
}

type channel struct {
	id     int
	cap    int
	buf    []value
	closed bool
	recvq  []*waiter
	sendq  []*waiter
	elem   types.Type
}

func (i *interpreter) makeChan(t types.Type, size int64) *channel {
	i.nchan++
	return &channel{id: i.nchan, cap: int(size), elem: t.Underlying().(*types.Chan).Elem()}
}

func firstLive(q *[]*waiter) *waiter {
	for len(*q) > 0 {
		w := (*q)[0]
		if w.sel.fired < 0 {
			return w
		}
		*q = (*q)[1:]
	}
	return nil
}

func popLive(q *[]*waiter) *waiter {
	w := firstLive(q)
	if w != nil {
		*q = (*q)[1:]
	}
	return w
}

// tryRecv attempts an immediate receive.
func (c *channel) tryRecv() (v value, ok bool, done bool) {
	if c == nil {
		return nil, false, false
	}
	if len(c.buf) > 0 {
		v = c.buf[0]
		c.buf = c.buf[1:]
		if w := popLive(&c.sendq); w != nil {
			c.buf = append(c.buf, w.val)
			w.sel.fired = w.caseIdx
		}
		return v, true, true
	}
	if w := popLive(&c.sendq); w != nil {
		w.sel.fired = w.caseIdx
		return w.val, true, true
	}
	if c.closed {
		return zero(c.elem), false, true
	}
	return nil, false, false
}

// trySend attempts an immediate send.
func (c *channel) trySend(v value) bool {
	if c == nil {
		return false
	}
	if c.closed {
		panic(runtimeError("send on closed channel"))
	}
	if w := popLive(&c.recvq); w != nil {
		w.sel.recvVal, w.sel.recvOK = v, true
		w.sel.fired = w.caseIdx
		return true
	}
	if len(c.buf) < c.cap {
		c.buf = append(c.buf, v)
		return true
	}
	return false
}

func (c *channel) close() {
	if c == nil {
		panic(runtimeError("close of nil channel"))
	}
	if c.closed {
		panic(runtimeError("close of closed channel"))
	}
	c.closed = true
	for {
		w := popLive(&c.recvq)
		if w == nil {
			break
		}
		w.sel.recvVal, w.sel.recvOK = zero(c.elem), false
		w.sel.fired = w.caseIdx
	}
	for {
		w := popLive(&c.sendq)
		if w == nil {
			break
		}
		w.sel.closedP = true
		w.sel.fired = w.caseIdx
	}
}

func (i *interpreter) chanSend(c *channel, v value) {
	i.preempt("chan-send")
	if c != nil {
		i.hbRelease(c)
	}
	if c.trySend(v) {
		return
	}
	sel := &selState{fired: -1}
	if c != nil {
		c.sendq = append(c.sendq, &waiter{sel: sel, caseIdx: 0, val: v})
	}
	i.block("chan send", func() bool { return sel.fired >= 0 })
	if sel.closedP {
		panic(runtimeError("send on closed channel"))
	}
}

func (i *interpreter) chanRecv(c *channel) (value, bool) {
	i.preempt("chan-recv")
	if v, ok, done := c.tryRecv(); done {
		i.hbAcquire(c)
		return v, ok
	}
	sel := &selState{fired: -1}
	if c != nil {
		c.recvq = append(c.recvq, &waiter{sel: sel, caseIdx: 0})
	}
	i.block("chan recv", func() bool { return sel.fired >= 0 })
	i.hbAcquire(c)
	return sel.recvVal, sel.recvOK
}

// doSelect implements ssa.Select. Returns (chosen index, recvOK, received values per recv case).
func (i *interpreter) doSelect(fr *frame, instr *ssa.Select) value {
	i.preempt("select")
	n := len(instr.States)
	chans := make([]*channel, n)
	sends := make([]value, n)
	for k, st := range instr.States {
		chans[k], _ = fr.get(st.Chan).(*channel)
		if st.Dir == types.SendOnly {
			sends[k] = fr.get(st.Send)
			if chans[k] != nil {
				i.hbRelease(chans[k])
			}
		}
	}
	chosen := -1
	var recv value
	recvOK := false
	order := make([]int, n)
	for k := range order {
		order[k] = k
	}
	if i.cfg.Sched != nil && n > 1 {
		// explored mode: rotate the starting case
		start := i.cfg.Sched(i, n)
		for k := range order {
			order[k] = (start + k) % n
		}
	}
	for _, k := range order {
		st := instr.States[k]
		if st.Dir == types.SendOnly {
			if chans[k].trySend(sends[k]) {
				chosen = k
				break
			}
		} else {
			if v, ok, done := chans[k].tryRecv(); done {
				chosen, recv, recvOK = k, v, ok
				break
			}
		}
	}
	if chosen < 0 && instr.Blocking {
		sel := &selState{fired: -1}
		for k, st := range instr.States {
			if chans[k] == nil {
				continue
			}
			w := &waiter{sel: sel, caseIdx: k, val: sends[k]}
			if st.Dir == types.SendOnly {
				chans[k].sendq = append(chans[k].sendq, w)
			} else {
				chans[k].recvq = append(chans[k].recvq, w)
			}
		}
		i.block("select", func() bool { return sel.fired >= 0 })
		if sel.closedP {
			panic(runtimeError("send on closed channel"))
		}
		chosen, recv, recvOK = sel.fired, sel.recvVal, sel.recvOK
	}
	if chosen >= 0 && instr.States[chosen].Dir == types.RecvOnly && chans[chosen] != nil {
		i.hbAcquire(chans[chosen])
	}
	r := tuple{chosen, recvOK}
	for k, st := range instr.States {
		if st.Dir == types.RecvOnly {
			if k == chosen && recvOK {
				r = append(r, recv)
			} else {
				r = append(r, zero(st.Chan.Type().Underlying().(*types.Chan).Elem()))
			}
		}
	}
	return r
}

// preempt is a potential preemption point (explored-schedules mode only).
func (i *interpreter) preempt(what string) {
	if i.cfg.Preempt != nil && i.cfg.Preempt(i, what) {
		i.yield()
	}
}

// ---- mutexes, waitgroups, once: state in side tables keyed by address ----

type mutexState struct {
	writer  bool
	readers int
}

func (i *interpreter) mutex(p *value) *mutexState {
	m := i.mutexes[p]
	if m == nil {
		m = &mutexState{}
		i.mutexes[p] = m
	}
	return m
}

func (i *interpreter) lock(p *value) {
	i.preempt("lock")
	m := i.mutex(p)
	i.block("mutex lock", func() bool { return !m.writer && m.readers == 0 })
	m.writer = true
	i.hbAcquire(p)
}
func (i *interpreter) unlock(p *value) {
	m := i.mutex(p)
	if !m.writer {
		panic(runtimeError("sync: unlock of unlocked mutex"))
	}
	i.hbRelease(p)
	m.writer = false
	i.preempt("unlock")
}
func (i *interpreter) rlock(p *value) {
	i.preempt("rlock")
	m := i.mutex(p)
	i.block("mutex rlock", func() bool { return !m.writer })
	m.readers++
	i.hbAcquire(p)
}
func (i *interpreter) runlock(p *value) {
	m := i.mutex(p)
	if m.readers <= 0 {
		panic(runtimeError("sync: RUnlock of unlocked RWMutex"))
	}
	i.hbRelease(p)
	m.readers--
	i.preempt("runlock")
}

// ---- virtual time ----

type vtimer struct {
	when    vtime
	period  int64 // ns; 0 = one-shot
	ch      *channel
	fn      value // AfterFunc
	stopped bool
	fired   bool
	tval    *value // address of the Timer/Ticker struct (for Stop/Reset)
}

// fireTimers delivers every timer due at the current virtual instant.
func (i *interpreter) fireTimers() {
	for k := 0; k < len(i.timers); k++ {
		t := i.timers[k]
		if t.stopped || (t.fired && t.period == 0) {
			continue
		}
		if !t.stopped && i.timeLE(t.when, i.now) {
			t.fired = true
			if t.fn != nil {
				i.spawn(t.fn, nil, token.NoPos, "time.AfterFunc")
			} else if len(t.ch.buf) < t.ch.cap || firstLive(&t.ch.recvq) != nil {
				t.ch.trySend(i.timeValue(i.now))
			}
			if t.period != 0 {
				// a ticker drops the ticks a slow receiver missed: next tick one period from now
				t.when = i.timeAddNs(i.now, t.period)
			}
		}
	}
}
