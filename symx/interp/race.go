package interp

// Explored schedules (scheduling decisions and preemptions are solver variables) and a
// vector-clock happens-before monitor for data races.

import (
	"fmt"
	"go/types"

	"symx/term"
)

type vclock []int

func (v vclock) get(g int) int {
	if g < len(v) {
		return v[g]
	}
	return 0
}

func (v *vclock) set(g, c int) {
	for len(*v) <= g {
		*v = append(*v, 0)
	}
	(*v)[g] = c
}

func (v *vclock) join(o vclock) {
	for g, c := range o {
		if c > v.get(g) {
			v.set(g, c)
		}
	}
}

func (v vclock) clone() vclock { return append(vclock(nil), v...) }

type access struct {
	g     int
	clock int
	site  string
}

type shadow struct {
	w       *access
	r       map[int]*access
	touched map[int]bool
}

type raceState struct {
	vc     map[int]*vclock        // per goroutine
	mem    map[interface{}]*shadow // per location
	syncs  map[interface{}]*vclock // per sync object (mutex address, channel, atomic address, ...)
	reads  map[interface{}]*vclock // RWMutex reader releases
	report map[string]bool
}

func (i *interpreter) raceOn() bool { return i.race != nil }

func (i *interpreter) gvc(g int) *vclock {
	v := i.race.vc[g]
	if v == nil {
		v = &vclock{}
		v.set(g, 1)
		i.race.vc[g] = v
	}
	return v
}

func (i *interpreter) curG() int {
	if i.cur == nil {
		return 0
	}
	return i.cur.id
}

// hbFork: child starts with a copy of the parent's clock.
func (i *interpreter) hbFork(child int) {
	if !i.raceOn() {
		return
	}
	p := i.gvc(i.curG())
	c := p.clone()
	c.set(child, 1)
	i.race.vc[child] = &c
	p.set(i.curG(), p.get(i.curG())+1)
}

// hbRelease / hbAcquire on a sync object.
func (i *interpreter) hbRelease(obj interface{}) {
	if !i.raceOn() {
		return
	}
	g := i.curG()
	v := i.gvc(g)
	s := i.race.syncs[obj]
	if s == nil {
		s = &vclock{}
		i.race.syncs[obj] = s
	}
	s.join(*v)
	v.set(g, v.get(g)+1)
}

func (i *interpreter) hbAcquire(obj interface{}) {
	if !i.raceOn() {
		return
	}
	if s := i.race.syncs[obj]; s != nil {
		i.gvc(i.curG()).join(*s)
	}
}

// touchLeaf records one access to a leaf memory cell and reports unordered conflicts.
func (i *interpreter) touchLeaf(loc interface{}, write bool) {
	r := i.race
	g := i.curG()
	sh := r.mem[loc]
	if sh == nil {
		sh = &shadow{r: map[int]*access{}, touched: map[int]bool{}}
		r.mem[loc] = sh
	}
	sh.touched[g] = true
	v := i.gvc(g)
	site := ""
	conflict := func(a *access) {
		if a == nil || a.g == g || a.clock <= v.get(a.g) {
			return
		}
		if site == "" {
			site = i.site()
		}
		key := a.site + " <-> " + site
		if !r.report[key] {
			r.report[key] = true
			i.res.Events = append(i.res.Events, Event{Kind: "race", Label: "no-data-race", Value: key})
		}
	}
	conflict(sh.w)
	if write {
		for _, a := range sh.r {
			conflict(a)
		}
		sh.w = &access{g: g, clock: v.get(g), site: i.site()}
		sh.r = map[int]*access{}
	} else {
		sh.r[g] = &access{g: g, clock: v.get(g), site: i.site()}
	}
}

// touch walks a cell of static type T down to its leaves.
func (i *interpreter) touch(T types.Type, addr *value, write bool) {
	if !i.raceOn() || addr == nil {
		return
	}
	switch T := T.Underlying().(type) {
	case *types.Struct:
		v, ok := (*addr).(structure)
		if !ok {
			return
		}
		for k := range v {
			i.touch(T.Field(k).Type(), &v[k], write)
		}
	case *types.Array:
		v, ok := (*addr).(array)
		if !ok {
			return
		}
		for k := range v {
			i.touch(T.Elem(), &v[k], write)
		}
	default:
		i.touchLeaf(addr, write)
	}
}

// preemptMem: in explored mode an access to a location another goroutine has touched is a
// potential preemption point; the race monitor itself is driven by touch().
func (i *interpreter) preemptMem(addr interface{}, write bool) {
	if i.cfg.Preempt == nil || !i.raceOn() {
		return
	}
	if m, ok := addr.(*omap); ok {
		if m == nil {
			return
		}
		if sh := i.race.mem[m]; sh != nil && (len(sh.touched) > 1 || !sh.touched[i.curG()]) {
			i.preempt("map")
		}
		i.touchLeaf(m, write)
		return
	}
	p, ok := addr.(*value)
	if !ok || p == nil {
		return
	}
	if sh := i.race.mem[p]; sh != nil && (len(sh.touched) > 1 || !sh.touched[i.curG()]) {
		i.preempt("mem")
	}
}

// schedChoice: which of n candidates runs next is a solver variable.
func schedChoice(i *interpreter, n int) int {
	if n <= 1 {
		return 0
	}
	v, t := i.newVar("sched", 8, 0, func(u uint64) bool { return u < uint64(n) })
	i.addRecord(Record{Cond: i.tb.Cmp(term.BvUlt, t, i.tb.BV(8, uint64(n))), Taken: true, Kind: RecAssume})
	c := i.concretize(sv{uint8(v), t}, "sched")
	i.res.SchedLog = append(i.res.SchedLog, int(c.(uint8)))
	return int(c.(uint8))
}

// preemptChoice: whether the running goroutine is preempted here is a solver variable, up to
// MaxPreempt preemptions per path (context bounding).
func preemptChoice(i *interpreter, what string) bool {
	if i.preempts >= i.cfg.MaxPreempt || i.cur == nil || !i.anyOtherRunnable(i.cur) {
		return false
	}
	v, t := i.newVar("preempt", 0, 0, nil)
	if i.record(sv{v != 0, t}, RecIf, "preempt:"+what) {
		i.preempts++
		return true
	}
	return false
}

var _ = fmt.Sprintf
