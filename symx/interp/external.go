package interp

// Intrinsics: the harness API, and models of library functions that cannot be
// interpreted (no body, unsafe, reflection) or must be symbolic-aware.

import (
	"fmt"
	"go/types"
	"strconv"
	"strings"
	"unsafe"

	"golang.org/x/tools/go/ssa"

	"symx/term"
)

type externalFn func(fr *frame, args []value) value

// nativeFn is a function value implemented by the engine.
type nativeFn func(fr *frame, args []value) value

// RT is the import path of the harness runtime package.
const RT = "github.com/vx-labs/wasp/v4/zzsymxrt"

var externals = make(map[string]externalFn)

func init() {
	for k, v := range map[string]externalFn{
		RT + ".Int":      extInt,
		RT + ".Bool":     extBool,
		RT + ".Byte":     extByte,
		RT + ".Bytes":    extBytes,
		RT + ".Assume":   extAssume,
		RT + ".Assert":   extAssert,
		RT + ".Cover":    extCover,
		RT + ".Observe":  extObserve,
		RT + ".Known":    extKnown,
		RT + ".Report":   extReport,
		RT + ".Quiesce":  func(fr *frame, a []value) value { fr.i.quiesce(); return nil },
		RT + ".Yield":    func(fr *frame, a []value) value { fr.i.yield(); return nil },
		RT + ".Native":   func(fr *frame, a []value) value { return false },
		RT + ".SetNow":   extSetNow,
		RT + ".Concrete": func(fr *frame, a []value) value { return fr.i.concretize(a[0], "rt.Concrete") },
		RT + ".Fresh":    extFresh,
		RT + ".And":      func(fr *frame, a []value) value { return fr.i.boolAnd(a[0], a[1]) },
		RT + ".Or":       func(fr *frame, a []value) value { return fr.i.boolOr(a[0], a[1]) },
		RT + ".Implies":  func(fr *frame, a []value) value { return fr.i.boolOr(fr.i.boolNot(a[0]), a[1]) },
		RT + ".Param": func(fr *frame, a []value) value {
			if v, ok := fr.i.cfg.Params[strArg(fr, a[0])]; ok {
				return v
			}
			return a[1]
		},

		"internal/bytealg.IndexByte":       extIndexByte,
		"internal/bytealg.IndexByteString": extIndexByte,
		"bytes.IndexByte":                  extIndexByte,
		"strings.IndexByte":                extIndexByte,
		"bytes.Index":                      extIndex,
		"strings.Index":                    extIndex,
		"bytes.Equal":                      extBytesEqual,
		"bytes.Compare":                    extCompare,
		"strings.Compare":                  extCompare,
		"internal/bytealg.Compare":         extCompare,
		"internal/bytealg.CompareString":   extCompare,
		"internal/bytealg.Equal":           extBytesEqual,
		"internal/bytealg.Count":           extCount,
		"internal/bytealg.CountString":     extCount,

		"internal/reflectlite.Swapper": extSwapper,
		"internal/reflectlite.ValueOf": extRLValueOf,
		"(internal/reflectlite.Value).Len": func(fr *frame, a []value) value {
			switch x := a[0].(structure)[1].(type) {
			case []value:
				return len(x)
			}
			unsupported("reflectlite.Value.Len on non-slice")
			return nil
		},
		"reflect.Swapper": extSwapper,

		"runtime.Gosched":    func(fr *frame, a []value) value { fr.i.yield(); return nil },
		"runtime.GOMAXPROCS": func(fr *frame, a []value) value { return 16 },
		"runtime.NumCPU":     func(fr *frame, a []value) value { return 16 },
		"runtime.KeepAlive":  func(fr *frame, a []value) value { return nil },
		"runtime.SetFinalizer": func(fr *frame, a []value) value {
			return nil
		},
		"os.Getenv":     func(fr *frame, a []value) value { return "" },
		"strconv.Itoa":  func(fr *frame, a []value) value { return strconv.Itoa(int(asInt64(fr.i.concretize(a[0], "itoa")))) },
		"fmt.Sprintf":   extSprintf,
		"fmt.Errorf":    extErrorf,
		"fmt.Sprint":    extSprint,
		"fmt.Println":   func(fr *frame, a []value) value { return tuple{0, iface{}} },
		"fmt.Printf":    func(fr *frame, a []value) value { return tuple{0, iface{}} },
		"errors.Is":     extErrorsIs,
		"math.Float64bits": func(fr *frame, a []value) value {
			return *(*uint64)(unsafe.Pointer(ptrTo(a[0].(float64))))
		},
	} {
		externals[k] = v
	}
	initSyncExternals()
	initTimeExternals()
	initLibExternals()
}

func ptrTo(f float64) *float64 { return &f }

// ---- inputs ----

func (i *interpreter) newVar(base string, w int, def uint64, inRange func(uint64) bool) (uint64, *term.Term) {
	n := i.varCount[base]
	i.varCount[base] = n + 1
	name := base
	if n > 0 {
		name = fmt.Sprintf("%s#%d", base, n)
	}
	v, ok := i.cfg.Inputs[name]
	if !ok || (inRange != nil && !inRange(v)) {
		v = def
	}
	if w > 0 && w < 64 {
		v &= (uint64(1) << uint(w)) - 1
	}
	t := i.tb.NewVar(name, w)
	i.res.Vars = append(i.res.Vars, VarInfo{Name: name, W: w, Val: v})
	return v, t
}

func strArg(fr *frame, v value) string { return fr.i.concStr(v, "rt-name") }

func extInt(fr *frame, args []value) value {
	i := fr.i
	name := strArg(fr, args[0])
	lo, hi := asInt64(conc(args[1])), asInt64(conc(args[2]))
	def := int64(0)
	if lo > 0 || hi < 0 {
		def = lo
	}
	v, t := i.newVar(name, 64, uint64(def), func(u uint64) bool { return int64(u) >= lo && int64(u) <= hi })
	rng := i.tb.And(i.tb.Cmp(term.BvSle, i.tb.BV(64, uint64(lo)), t), i.tb.Cmp(term.BvSle, t, i.tb.BV(64, uint64(hi))))
	i.addRecord(Record{Cond: rng, Taken: true, Kind: RecAssume})
	return sv{int64(v), t}
}

func extBool(fr *frame, args []value) value {
	v, t := fr.i.newVar(strArg(fr, args[0]), 0, 0, nil)
	return sv{v != 0, t}
}

func extByte(fr *frame, args []value) value {
	v, t := fr.i.newVar(strArg(fr, args[0]), 8, 0, nil)
	return sv{uint8(v), t}
}

func extBytes(fr *frame, args []value) value {
	name := strArg(fr, args[0])
	n := asInt64(fr.i.concretize(args[1], "rt.Bytes length"))
	out := make([]value, n)
	for k := range out {
		v, t := fr.i.newVar(fmt.Sprintf("%s[%d]", name, k), 8, 0, nil)
		out[k] = sv{uint8(v), t}
	}
	return out
}

func extFresh(fr *frame, args []value) value {
	fr.i.fresh++
	return fr.i.fresh
}

func extAssume(fr *frame, args []value) value {
	i := fr.i
	if s, ok := args[0].(sv); ok {
		c := s.c.(bool)
		if !c {
			i.addRecord(Record{Cond: s.t, Taken: false, Kind: RecIf})
			panic(abortPath{Status: "assume-failed"})
		}
		i.addRecord(Record{Cond: s.t, Taken: true, Kind: RecAssume})
		return nil
	}
	if !args[0].(bool) {
		panic(abortPath{Status: "assume-failed"})
	}
	return nil
}

func extAssert(fr *frame, args []value) value {
	i := fr.i
	label := strArg(fr, args[1])
	if s, ok := args[0].(sv); ok {
		if !s.c.(bool) {
			i.res.Events = append(i.res.Events, Event{Kind: "violation", Label: label, Value: i.callerSite(fr)})
			i.addRecord(Record{Cond: s.t, Taken: false, Kind: RecIf})
			panic(abortPath{Status: "violation", Msg: label})
		}
		i.res.Obligations = append(i.res.Obligations, Obligation{Label: label, Pos: len(i.path), Cond: s.t, Instr: i.curInstr})
		i.addRecord(Record{Cond: s.t, Taken: true, Kind: RecAssume})
		return nil
	}
	if !args[0].(bool) {
		i.res.Events = append(i.res.Events, Event{Kind: "violation", Label: label, Value: i.callerSite(fr)})
		panic(abortPath{Status: "violation", Msg: label})
	}
	i.res.Events = append(i.res.Events, Event{Kind: "assert-ok", Label: label})
	return nil
}

func (i *interpreter) callerSite(fr *frame) string {
	return i.site()
}

func extCover(fr *frame, args []value) value {
	i := fr.i
	i.res.Events = append(i.res.Events, Event{Kind: "cover-reached", Label: strArg(fr, args[1])})
	if i.record(args[0], RecIf, "cover") {
		i.res.Events = append(i.res.Events, Event{Kind: "cover", Label: strArg(fr, args[1])})
	}
	return nil
}

func extKnown(fr *frame, args []value) value {
	return fr.i.cfg.Known[strArg(fr, args[0])]
}

func extReport(fr *frame, args []value) value {
	i := fr.i
	if i.record(args[1], RecIf, "report") {
		i.res.Events = append(i.res.Events, Event{Kind: "known", Label: strArg(fr, args[0])})
	}
	return nil
}

// canon renders an observed value; the native runtime package renders identically.
func (i *interpreter) canon(sb *strings.Builder, v value) {
	switch v := v.(type) {
	case sv:
		i.canon(sb, v.c)
	case sstr:
		fmt.Fprintf(sb, "%q", v.s)
	case iface:
		if v.t == nil {
			sb.WriteString("nil")
		} else {
			i.canon(sb, v.v)
		}
	case bool:
		fmt.Fprintf(sb, "%v", v)
	case int, int8, int16, int32, int64:
		fmt.Fprintf(sb, "%d", asInt64(v))
	case uint, uint8, uint16, uint32, uint64, uintptr:
		fmt.Fprintf(sb, "%d", toBits(v))
	case string:
		fmt.Fprintf(sb, "%q", v)
	case []value:
		// []byte -> hex, other slices -> [a b c]
		allBytes := len(v) > 0
		for _, e := range v {
			if _, ok := conc(e).(uint8); !ok {
				allBytes = false
			}
		}
		if allBytes {
			sb.WriteString("x")
			for _, e := range v {
				fmt.Fprintf(sb, "%02x", conc(e).(uint8))
			}
			return
		}
		sb.WriteString("[")
		for k, e := range v {
			if k > 0 {
				sb.WriteString(" ")
			}
			i.canon(sb, e)
		}
		sb.WriteString("]")
	default:
		unsupported("Observe of %T", v)
	}
}

func extObserve(fr *frame, args []value) value {
	var sb strings.Builder
	for k, a := range args[1].([]value) {
		if k > 0 {
			sb.WriteString(" ")
		}
		fr.i.canon(&sb, a)
	}
	fr.i.res.Events = append(fr.i.res.Events, Event{Kind: "observe", Label: strArg(fr, args[0]), Value: sb.String()})
	return nil
}

// ---- bytes / strings ----

func seqOf(v value) (get func(k int) value, n int) {
	switch v := v.(type) {
	case []value:
		return func(k int) value { return v[k] }, len(v)
	case string:
		return func(k int) value { return v[k] }, len(v)
	case sstr:
		return func(k int) value {
			if v.b[k] != nil {
				return sv{v.s[k], v.b[k]}
			}
			return v.s[k]
		}, len(v.s)
	}
	panic(fmt.Sprintf("seqOf: %T", v))
}

var tByte = types.Typ[types.Uint8]

// extIndexByte: first k with s[k]==c; records one decision per compared byte.
func extIndexByte(fr *frame, args []value) value {
	i := fr.i
	get, n := seqOf(args[0])
	c := args[1]
	for k := 0; k < n; k++ {
		if i.record(i.eq(tByte, get(k), c), RecIf, "IndexByte") {
			return k
		}
	}
	return -1
}

func extIndex(fr *frame, args []value) value {
	i := fr.i
	get, n := seqOf(args[0])
	sub, m := seqOf(args[1])
	for k := 0; k+m <= n; k++ {
		match := true
		for j := 0; j < m; j++ {
			if !i.record(i.eq(tByte, get(k+j), sub(j)), RecIf, "Index") {
				match = false
				break
			}
		}
		if match {
			return k
		}
	}
	return -1
}

func extCount(fr *frame, args []value) value {
	i := fr.i
	get, n := seqOf(args[0])
	c := 0
	for k := 0; k < n; k++ {
		if i.record(i.eq(tByte, get(k), args[1]), RecIf, "Count") {
			c++
		}
	}
	return c
}

func toStrValue(v value) value {
	switch v := v.(type) {
	case []value:
		return bytesToStr(v)
	}
	return v
}

func extBytesEqual(fr *frame, args []value) value {
	c, t := fr.i.strEq(toStrValue(args[0]), toStrValue(args[1]))
	return fr.i.mk(c, t)
}

func extCompare(fr *frame, args []value) value {
	i := fr.i
	a, b := toStrValue(args[0]), toStrValue(args[1])
	c, t := i.strEq(a, b)
	if i.record(i.mk(c, t), RecIf, "Compare") {
		return 0
	}
	c, t = i.strLess(a, b)
	if i.record(i.mk(c, t), RecIf, "Compare") {
		return -1
	}
	return 1
}

// ---- sort support ----

func extSwapper(fr *frame, args []value) value {
	s, ok := args[0].(iface).v.([]value)
	if !ok {
		unsupported("Swapper of non-slice")
	}
	return nativeFn(func(fr *frame, a []value) value {
		x, y := asInt64(a[0]), asInt64(a[1])
		s[x], s[y] = s[y], s[x]
		return nil
	})
}

func extRLValueOf(fr *frame, args []value) value {
	return structure{nil, args[0].(iface).v, uintptr(0)}
}

// ---- fmt ----

func (i *interpreter) fmtArg(sb *strings.Builder, verb byte, a value) bool {
	if it, ok := a.(iface); ok {
		if it.t == nil {
			sb.WriteString("<nil>")
			return true
		}
		// error / Stringer
		if verb == 'v' || verb == 's' {
			for _, m := range []string{"Error", "String"} {
				if f := i.findMethod(it.t, m); f != nil && f.Signature.Params().Len() == 0 {
					r := call(i, nil, 0, f, []value{it.v})
					sb.WriteString(i.concStr(r, "fmt"))
					return true
				}
			}
		}
		a = it.v
	}
	switch verb {
	case 'd':
		c := i.concretize(a, "fmt %d")
		switch c.(type) {
		case int, int8, int16, int32, int64:
			fmt.Fprintf(sb, "%d", asInt64(c))
			return true
		case uint, uint8, uint16, uint32, uint64, uintptr:
			fmt.Fprintf(sb, "%d", toBits(c))
			return true
		}
	case 's', 'v', 'q':
		switch x := a.(type) {
		case string, sstr:
			if verb == 'q' {
				fmt.Fprintf(sb, "%q", i.concStr(x, "fmt"))
			} else {
				sb.WriteString(i.concStr(x, "fmt"))
			}
			return true
		case []value:
			if verb == 's' {
				sb.WriteString(i.concStr(bytesToStr(x), "fmt"))
				return true
			}
		case sv, bool, int, int8, int16, int32, int64, uint, uint8, uint16, uint32, uint64:
			c := i.concretize(a, "fmt %v")
			fmt.Fprintf(sb, "%v", c)
			return true
		}
	case 'x':
		switch x := a.(type) {
		case array:
			for _, e := range x {
				fmt.Fprintf(sb, "%02x", i.concretize(e, "fmt %x"))
			}
			return true
		case []value:
			for _, e := range x {
				fmt.Fprintf(sb, "%02x", i.concretize(e, "fmt %x"))
			}
			return true
		case string, sstr:
			fmt.Fprintf(sb, "%x", i.concStr(x, "fmt"))
			return true
		default:
			c := i.concretize(a, "fmt %x")
			if _, _, ok := kindOf(c); ok {
				fmt.Fprintf(sb, "%x", c)
				return true
			}
		}
	}
	return false
}

// sprintf supports %d %s %v %x %q %%; anything else yields an opaque marker string.
func (i *interpreter) sprintf(format string, args []value) value {
	// special case kept symbolic: "%s/%d" (ack key) and "%x" of a hash handled by callers
	var sb strings.Builder
	ai := 0
	for k := 0; k < len(format); k++ {
		if format[k] != '%' {
			sb.WriteByte(format[k])
			continue
		}
		k++
		if k >= len(format) {
			break
		}
		if format[k] == '%' {
			sb.WriteByte('%')
			continue
		}
		if ai >= len(args) || !i.fmtArg(&sb, format[k], args[ai]) {
			sb.WriteString("<?fmt>")
		}
		ai++
	}
	return sb.String()
}

func extSprintf(fr *frame, args []value) value {
	i := fr.i
	format := i.concStr(args[0], "fmt")
	va := args[1].([]value)
	// keep "%s/%d" symbolic-friendly: build string by concatenation when the %s part is symbolic
	if format == "%s/%d" && len(va) == 2 {
		// the in-flight table key: only ever compared for equality, so an injective fixed-width
		// rendering of the integer (8 hex digits, symbolic when the integer is) stands for %d
		s := va[0].(iface).v
		d := i.toInt64(va[1].(iface).v)
		return strConcat(strConcat(s, "/"), i.fixedHex32(d))
	}
	if format == "%x" && len(va) == 1 {
		if h := i.hexOfSymbolic(va[0].(iface).v); h != nil {
			return h
		}
	}
	return i.sprintf(format, va)
}

// hexOfSymbolic renders %x of a byte array/slice keeping symbolic bytes symbolic
// (two hex digits per byte as terms).
func (i *interpreter) hexOfSymbolic(v value) value {
	var elems []value
	switch x := v.(type) {
	case array:
		elems = x
	case []value:
		elems = x
	default:
		return nil
	}
	any := false
	for _, e := range elems {
		if _, ok := e.(sv); ok {
			any = true
		}
	}
	if !any {
		return nil
	}
	tb := i.tb
	bs := make([]byte, 0, 2*len(elems))
	ts := make([]*term.Term, 0, 2*len(elems))
	hexDigit := func(n *term.Term) *term.Term { // n: 8-bit term holding 0..15
		return tb.Ite(tb.Cmp(term.BvUlt, n, tb.BV(8, 10)), tb.Bin(term.BvAdd, n, tb.BV(8, '0')), tb.Bin(term.BvAdd, n, tb.BV(8, 'a'-10)))
	}
	const digits = "0123456789abcdef"
	for _, e := range elems {
		c := conc(e).(uint8)
		bs = append(bs, digits[c>>4], digits[c&15])
		if s, ok := e.(sv); ok {
			ts = append(ts, hexDigit(tb.Bin(term.BvLShr, s.t, tb.BV(8, 4))), hexDigit(tb.Bin(term.BvAnd, s.t, tb.BV(8, 15))))
		} else {
			ts = append(ts, nil, nil)
		}
	}
	return mkStr(string(bs), ts)
}

func (i *interpreter) makeError(msg value) value {
	ep := i.prog.ImportedPackage("errors")
	if ep == nil {
		unsupported("errors package not loaded")
	}
	t := ep.Type("errorString").Type()
	var cell value = structure{msg}
	return iface{t: types.NewPointer(t), v: &cell}
}

func extErrorf(fr *frame, args []value) value {
	i := fr.i
	return i.makeError(i.sprintf(i.concStr(args[0], "fmt"), args[1].([]value)))
}

func extSprint(fr *frame, args []value) value {
	var sb strings.Builder
	for _, a := range args[0].([]value) {
		if !fr.i.fmtArg(&sb, 'v', a) {
			sb.WriteString("<?fmt>")
		}
	}
	return sb.String()
}

func extErrorsIs(fr *frame, args []value) value {
	i := fr.i
	e, target := args[0].(iface), args[1].(iface)
	for depth := 0; depth < 10 && e.t != nil; depth++ {
		if sameType(e.t, target.t) {
			if c, _ := i.eqTerm(e.t, e.v, target.v); c {
				return true
			}
		}
		f := i.findMethod(e.t, "Unwrap")
		if f == nil {
			return false
		}
		r := call(i, nil, 0, f, []value{e.v})
		var ok bool
		if e, ok = r.(iface); !ok {
			return false
		}
	}
	return false
}

var _ = ssa.NaiveForm

// findMethod returns the exported method name of dynamic type t, or nil.
func (i *interpreter) findMethod(t types.Type, name string) *ssa.Function {
	sel := i.prog.MethodSets.MethodSet(t).Lookup(nil, name)
	if sel == nil {
		return nil
	}
	return i.prog.MethodValue(sel)
}

// fixedHex32 renders the low 32 bits of an integer as 8 hex digits, keeping symbolic digits symbolic.
func (i *interpreter) fixedHex32(d value) value {
	const digits = "0123456789abcdef"
	c := uint32(asInt64(conc(d)))
	bs := make([]byte, 8)
	for k := 0; k < 8; k++ {
		bs[k] = digits[(c>>uint(28-4*k))&15]
	}
	sd, ok := d.(sv)
	if !ok {
		return string(bs)
	}
	tb := i.tb
	ts := make([]*term.Term, 8)
	for k := 0; k < 8; k++ {
		nib := tb.Extract(tb.Bin(term.BvLShr, sd.t, tb.BV(64, uint64(28-4*k))), 7, 0)
		nib = tb.Bin(term.BvAnd, nib, tb.BV(8, 15))
		ts[k] = tb.Ite(tb.Cmp(term.BvUlt, nib, tb.BV(8, 10)), tb.Bin(term.BvAdd, nib, tb.BV(8, '0')), tb.Bin(term.BvAdd, nib, tb.BV(8, 'a'-10)))
	}
	return mkStr(string(bs), ts)
}
