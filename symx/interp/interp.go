// Copyright 2013 The Go Authors. All rights reserved.
// Use of this source code is governed by a BSD-style
// license that can be found in the LICENSE file.

// Package interp is a concolic interpreter for go/ssa, derived from
// golang.org/x/tools/go/ssa/interp (v0.29.0). Every scalar may carry a shadow
// SMT term; every decision that depends on a symbolic value is recorded on the
// path; goroutines are cooperative coroutines under a deterministic scheduler.
package interp

import (
	"fmt"
	"go/token"
	"go/types"
	"os"
	"runtime"
	"slices"
	"strings"
	"sync"

	"golang.org/x/tools/go/ssa"

	"symx/term"
)

type continuation int

const (
	kNext continuation = iota
	kReturn
	kJump
)

type methodSet map[string]*ssa.Function

// Config describes one run.
type Config struct {
	Prog          *ssa.Program
	Sizes         types.Sizes
	InitPkgs      []*ssa.Package         // package initialisers to run before the entry, in order
	InitAllowed   func(path string) bool // nested package initialisers permitted to run
	NoopPkg       func(path string) bool // functions of these packages return zero values
	Redirect      map[string]*ssa.Function
	Inputs        map[string]uint64
	Known         map[string]bool
	Params        map[string]int
	MapOrderFns   []string // functions whose map ranges start at a solver-chosen entry
	MaxSteps      int64
	MaxRecords    int
	MaxGoroutines int
	Sched         func(i *interpreter, n int) int
	Preempt       func(i *interpreter, what string) bool
	Trace         bool
	Schedule      []int // explored mode: forced decisions (prefix)
	ExploreSched  bool
	MaxPreempt    int
}

type Event struct {
	Kind  string // violation | cover | observe | known | assert-ok
	Label string
	Value string
}

type Obligation struct {
	Label string
	Pos   int // number of path records preceding the assertion
	Cond  *term.Term
	Instr ssa.Instruction
}

type VarInfo struct {
	Name string
	W    int
	Val  uint64
}

type Result struct {
	Status      string // ok | violation | assume-failed | unsupported | bound-exceeded | deadlock | panic-escape
	Msg         string
	Path        []Record
	TB          *term.Builder
	Vars        []VarInfo
	Events      []Event
	Obligations []Obligation
	Funcs       map[*ssa.Function]struct{}
	Steps       int64
	SchedLog    []int
	Goroutines  int
}

// State shared between all interpreted goroutines of one run.
type interpreter struct {
	cfg                *Config
	prog               *ssa.Program
	globals            map[*ssa.Global]*value
	reflectPackage     *ssa.Package
	errorMethods       methodSet
	rtypeMethods       methodSet
	runtimeErrorString types.Type
	sizes              types.Sizes

	tb       *term.Builder
	path     []Record
	res      *Result
	varCount map[string]int
	steps    int64
	curInstr ssa.Instruction

	gs           []*goroutine
	cur          *goroutine
	dead         chan struct{}
	finished     chan struct{}
	finishedFlag bool
	wg           sync.WaitGroup
	nchan        int
	mutexes      map[*value]*mutexState
	side         map[interface{}]interface{} // generic side tables for intrinsics
	timers       []*vtimer
	now          vtime
	fresh        int
	inited       map[*ssa.Package]bool
	schedPos     int
	preempts     int
	race         *raceState
}

type deferred struct {
	fn    value
	args  []value
	instr *ssa.Defer
	tail  *deferred
}

type frame struct {
	i                *interpreter
	caller           *frame
	fn               *ssa.Function
	block, prevBlock *ssa.BasicBlock
	env              map[ssa.Value]value
	locals           []value
	defers           *deferred
	result           value
	panicking        bool
	panic            interface{}
	phitemps         []value
}

func mustDeref(t types.Type) types.Type {
	if p, ok := t.Underlying().(*types.Pointer); ok {
		return p.Elem()
	}
	panic(fmt.Sprintf("mustDeref: %s is not a pointer", t))
}

func (fr *frame) get(key ssa.Value) value {
	switch key := key.(type) {
	case nil:
		return nil
	case *ssa.Function, *ssa.Builtin:
		return key
	case *ssa.Const:
		return constValue(key)
	case *ssa.Global:
		if r, ok := fr.i.globals[key]; ok {
			return r
		}
		cell := zero(mustDeref(key.Type()))
		fr.i.globals[key] = &cell
		return &cell
	}
	if r, ok := fr.env[key]; ok {
		return r
	}
	panic(fmt.Sprintf("get: no value for %T: %v", key, key.Name()))
}

func (fr *frame) runDefer(d *deferred) {
	var ok bool
	defer func() {
		if !ok {
			r := recover()
			if a, isAbort := r.(abortPath); isAbort {
				panic(a)
			}
			fr.panicking = true
			fr.panic = r
		}
	}()
	call(fr.i, fr, d.instr.Pos(), d.fn, d.args)
	ok = true
}

func (fr *frame) runDefers() {
	for d := fr.defers; d != nil; d = d.tail {
		fr.runDefer(d)
	}
	fr.defers = nil
	if fr.panicking {
		panic(fr.panic)
	}
}

func lookupMethod(i *interpreter, typ types.Type, meth *types.Func) *ssa.Function {
	return i.prog.LookupMethod(typ, meth.Pkg(), meth.Name())
}

func (i *interpreter) site() string {
	if i.curInstr == nil {
		return ""
	}
	return i.instrSite(i.curInstr)
}

func (i *interpreter) instrSite(in ssa.Instruction) string {
	if in == nil {
		return "?"
	}
	p := i.prog.Fset.Position(in.Pos())
	fn := ""
	if in.Parent() != nil {
		fn = in.Parent().String()
	}
	f := p.Filename
	if k := strings.LastIndex(f, "/"); k >= 0 {
		f = f[k+1:]
	}
	return fmt.Sprintf("%s@%s:%d", fn, f, p.Line)
}

// visitInstr interprets a single ssa.Instruction.
func visitInstr(fr *frame, instr ssa.Instruction) continuation {
	i := fr.i
	i.curInstr = instr
	i.steps++
	if i.steps > i.cfg.MaxSteps {
		panic(abortPath{Status: "bound-exceeded", Msg: fmt.Sprintf("more than %d instructions", i.cfg.MaxSteps)})
	}
	switch instr := instr.(type) {
	case *ssa.DebugRef:
		// no-op

	case *ssa.UnOp:
		fr.env[instr] = i.unop(instr, fr.get(instr.X))

	case *ssa.BinOp:
		fr.env[instr] = i.binop(instr.Op, instr.X.Type(), fr.get(instr.X), fr.get(instr.Y))

	case *ssa.Call:
		fn, args := prepareCall(fr, &instr.Call)
		fr.env[instr] = call(fr.i, fr, instr.Pos(), fn, args)
		if fn == nil {
			fr.env[instr] = zeroResult(instr.Call.Signature())
		}

	case *ssa.ChangeInterface:
		fr.env[instr] = fr.get(instr.X)

	case *ssa.ChangeType:
		fr.env[instr] = fr.get(instr.X)

	case *ssa.Convert:
		fr.env[instr] = i.conv(instr.Type(), instr.X.Type(), fr.get(instr.X))

	case *ssa.SliceToArrayPointer:
		fr.env[instr] = sliceToArrayPointer(instr.Type(), instr.X.Type(), fr.get(instr.X))

	case *ssa.MakeInterface:
		fr.env[instr] = iface{t: instr.X.Type(), v: fr.get(instr.X)}

	case *ssa.Extract:
		fr.env[instr] = fr.get(instr.Tuple).(tuple)[instr.Index]

	case *ssa.Slice:
		fr.env[instr] = i.slice(fr.get(instr.X), fr.get(instr.Low), fr.get(instr.High), fr.get(instr.Max))

	case *ssa.Return:
		switch len(instr.Results) {
		case 0:
		case 1:
			fr.result = fr.get(instr.Results[0])
		default:
			var res []value
			for _, r := range instr.Results {
				res = append(res, fr.get(r))
			}
			fr.result = tuple(res)
		}
		fr.block = nil
		return kReturn

	case *ssa.RunDefers:
		fr.runDefers()

	case *ssa.Panic:
		panic(targetPanic{fr.get(instr.X)})

	case *ssa.Send:
		c, _ := fr.get(instr.Chan).(*channel)
		i.chanSend(c, fr.get(instr.X))

	case *ssa.Store:
		i.preemptMem(fr.get(instr.Addr), true)
		i.touch(mustDeref(instr.Addr.Type()), fr.get(instr.Addr).(*value), true)
		store(mustDeref(instr.Addr.Type()), fr.get(instr.Addr).(*value), fr.get(instr.Val))

	case *ssa.If:
		succ := 1
		if i.record(fr.get(instr.Cond), RecIf, "") {
			succ = 0
		}
		fr.prevBlock, fr.block = fr.block, fr.block.Succs[succ]
		return kJump

	case *ssa.Jump:
		fr.prevBlock, fr.block = fr.block, fr.block.Succs[0]
		return kJump

	case *ssa.Defer:
		fn, args := prepareCall(fr, &instr.Call)
		defers := &fr.defers
		if into := fr.get(instr.DeferStack); into != nil {
			defers = into.(**deferred)
		}
		*defers = &deferred{fn: fn, args: args, instr: instr, tail: *defers}

	case *ssa.Go:
		fn, args := prepareCall(fr, &instr.Call)
		name := "go"
		switch f := fn.(type) {
		case *ssa.Function:
			name = f.String()
		case *closure:
			name = f.Fn.String()
		}
		g := i.spawn(fn, args, instr.Pos(), name)
		i.hbFork(g.id)
		i.preempt("go")

	case *ssa.MakeChan:
		fr.env[instr] = i.makeChan(instr.Type(), asInt64(i.concretize(fr.get(instr.Size), "makechan")))

	case *ssa.Alloc:
		var addr *value
		if instr.Heap {
			addr = new(value)
			fr.env[instr] = addr
		} else {
			addr = fr.env[instr].(*value)
		}
		*addr = zero(mustDeref(instr.Type()))

	case *ssa.MakeSlice:
		lenv, capv := fr.get(instr.Len), fr.get(instr.Cap)
		if isSym(lenv) || isSym(capv) {
			// 0 <= len <= cap <= limit, then pin both
			tl, tc := i.termOf(i.toInt64(lenv)), i.termOf(i.toInt64(capv))
			ok := i.tb.And(i.tb.Cmp(term.BvSle, i.tb.BV(64, 0), tl), i.tb.And(i.tb.Cmp(term.BvSle, tl, tc), i.tb.Cmp(term.BvSle, tc, i.tb.BV(64, 1<<24))))
			cl, cc := asInt64(conc(lenv)), asInt64(conc(capv))
			cok := 0 <= cl && cl <= cc && cc <= 1<<24
			i.addRecord(Record{Cond: ok, Taken: cok, Kind: RecBounds})
			if !cok {
				panic(runtimeError("makeslice: len out of range"))
			}
			lenv, capv = i.concretize(lenv, "makeslice"), i.concretize(capv, "makeslice")
		}
		n, c := asInt64(lenv), asInt64(capv)
		if n < 0 || n > c {
			panic(runtimeError("makeslice: len out of range"))
		}
		if c > 1<<26 {
			panic(abortPath{Status: "bound-exceeded", Msg: fmt.Sprintf("makeslice of %d elements", c)})
		}
		slice := make([]value, c)
		tElt := instr.Type().Underlying().(*types.Slice).Elem()
		z := zero(tElt)
		switch z.(type) {
		case structure, array:
			for k := range slice {
				slice[k] = zero(tElt)
			}
		default:
			for k := range slice {
				slice[k] = z
			}
		}
		fr.env[instr] = slice[:n]

	case *ssa.MakeMap:
		fr.env[instr] = makeMap(instr.Type().Underlying().(*types.Map).Key(), 0)

	case *ssa.Range:
		fr.env[instr] = i.rangeIter(fr.get(instr.X), instr.X.Type())

	case *ssa.Next:
		fr.env[instr] = fr.get(instr.Iter).(iter).next()

	case *ssa.FieldAddr:
		p := fr.get(instr.X).(*value)
		if p == nil {
			panic(runtimeError("invalid memory address or nil pointer dereference"))
		}
		fr.env[instr] = &(*p).(structure)[instr.Field]

	case *ssa.Field:
		fr.env[instr] = fr.get(instr.X).(structure)[instr.Field]

	case *ssa.IndexAddr:
		x := fr.get(instr.X)
		idx := fr.get(instr.Index)
		switch x := x.(type) {
		case []value:
			k := i.checkIndex(idx, len(x), "indexaddr")
			if k < 0 || k >= int64(len(x)) {
				panic(runtimeError(fmt.Sprintf("index out of range [%d] with length %d", k, len(x))))
			}
			fr.env[instr] = &x[k]
		case *value: // *array
			if x == nil {
				panic(runtimeError("invalid memory address or nil pointer dereference"))
			}
			a := (*x).(array)
			k := i.checkIndex(idx, len(a), "indexaddr")
			if k < 0 || k >= int64(len(a)) {
				panic(runtimeError(fmt.Sprintf("index out of range [%d] with length %d", k, len(a))))
			}
			fr.env[instr] = &a[k]
		default:
			panic(fmt.Sprintf("unexpected x type in IndexAddr: %T", x))
		}

	case *ssa.Index:
		x := fr.get(instr.X)
		idx := fr.get(instr.Index)
		switch x := x.(type) {
		case array:
			k := i.checkIndex(idx, len(x), "index")
			if k < 0 || k >= int64(len(x)) {
				panic(runtimeError(fmt.Sprintf("index out of range [%d] with length %d", k, len(x))))
			}
			fr.env[instr] = x[k]
		case string, sstr:
			n := strLen(x)
			k := i.checkIndex(idx, n, "index")
			if k < 0 || k >= int64(n) {
				panic(runtimeError(fmt.Sprintf("index out of range [%d] with length %d", k, n)))
			}
			fr.env[instr] = i.strIndex(x, int(k))
		default:
			panic(fmt.Sprintf("unexpected x type in Index: %T", x))
		}

	case *ssa.Lookup:
		fr.env[instr] = i.lookup(instr, fr.get(instr.X), fr.get(instr.Index))

	case *ssa.MapUpdate:
		m, _ := fr.get(instr.Map).(*omap)
		i.preemptMem(m, true)
		m.insert(i, fr.get(instr.Key), fr.get(instr.Value), "mapupdate")

	case *ssa.TypeAssert:
		fr.env[instr] = typeAssert(fr.i, instr, fr.get(instr.X).(iface))

	case *ssa.MakeClosure:
		var bindings []value
		for _, binding := range instr.Bindings {
			bindings = append(bindings, fr.get(binding))
		}
		fr.env[instr] = &closure{instr.Fn.(*ssa.Function), bindings}

	case *ssa.Phi:
		panic("unreachable")

	case *ssa.Select:
		fr.env[instr] = i.doSelect(fr, instr)

	default:
		panic(fmt.Sprintf("unexpected instruction: %T", instr))
	}
	return kNext
}

func zeroResult(sig *types.Signature) value {
	switch sig.Results().Len() {
	case 0:
		return nil
	default:
		return zero(sig.Results())
	}
}

// noopCall is returned by prepareCall for invocations that are stubbed out.
type noopCall struct{ sig *types.Signature }

func prepareCall(fr *frame, call *ssa.CallCommon) (fn value, args []value) {
	v := fr.get(call.Value)
	if call.Method == nil {
		fn = v
	} else {
		recv := v.(iface)
		if recv.t == nil {
			if call.Method.Pkg() != nil && fr.i.cfg.NoopPkg(call.Method.Pkg().Path()) {
				return noopCall{call.Signature()}, nil
			}
			panic(runtimeError("invalid memory address or nil pointer dereference (method " + call.Method.Name() + " invoked on nil interface)"))
		}
		if f := lookupMethod(fr.i, recv.t, call.Method); f == nil {
			panic(fmt.Sprintf("method set for dynamic type %v does not contain %s", recv.t, call.Method))
		} else {
			fn = f
		}
		args = append(args, recv.v)
	}
	for _, arg := range call.Args {
		args = append(args, fr.get(arg))
	}
	return
}

func call(i *interpreter, caller *frame, callpos token.Pos, fn value, args []value) value {
	switch fn := fn.(type) {
	case *ssa.Function:
		if fn == nil {
			panic(runtimeError("invalid memory address or nil pointer dereference (call of nil func)"))
		}
		return callSSA(i, caller, callpos, fn, args, nil)
	case *closure:
		return callSSA(i, caller, callpos, fn.Fn, args, fn.Env)
	case *ssa.Builtin:
		return callBuiltin(caller, callpos, fn, args)
	case *closureEntry:
		i.runEntry(fn)
		return nil
	case nativeFn:
		return fn(caller, args)
	case noopCall:
		return zeroResult(fn.sig)
	}
	panic(fmt.Sprintf("cannot call %T", fn))
}

func fnPkgPath(fn *ssa.Function) string {
	if fn.Pkg != nil {
		return fn.Pkg.Pkg.Path()
	}
	if o := fn.Object(); o != nil && o.Pkg() != nil {
		return o.Pkg().Path()
	}
	if fn.Origin() != nil {
		return fnPkgPath(fn.Origin())
	}
	if fn.Signature.Recv() != nil {
		t := fn.Signature.Recv().Type()
		if p, ok := t.(*types.Pointer); ok {
			t = p.Elem()
		}
		if n, ok := t.(*types.Named); ok && n.Obj().Pkg() != nil {
			return n.Obj().Pkg().Path()
		}
	}
	if fn.Parent() != nil {
		return fnPkgPath(fn.Parent())
	}
	return ""
}

func callSSA(i *interpreter, caller *frame, callpos token.Pos, fn *ssa.Function, args []value, env []value) value {
	fr := &frame{i: i, caller: caller, fn: fn}
	if fn.Parent() == nil {
		name := fn.String()
		if r := i.cfg.Redirect[name]; r != nil {
			return callSSA(i, caller, callpos, r, args, nil)
		}
		if ext := externals[name]; ext != nil {
			return ext(fr, args)
		}
		if fn.Synthetic == "package initializer" {
			if !i.cfg.InitAllowed(fn.Pkg.Pkg.Path()) {
				return nil
			}
		} else if i.cfg.NoopPkg(fnPkgPath(fn)) {
			return zeroResult(fn.Signature)
		}
		if fn.Blocks == nil {
			unsupported("no code for function %s", name)
		}
		switch fnPkgPath(fn) {
		case "reflect", "internal/abi", "internal/reflectlite", "unsafe":
			unsupported("call into %s", name)
		}
	}
	if fn.TypeParams().Len() > 0 && len(fn.TypeArgs()) == 0 {
		unsupported("uninstantiated generic %s", fn)
	}
	// lazy package initialisation (leaf library packages only run their init when first used)
	if fn.Pkg != nil && !i.inited[fn.Pkg] {
		i.inited[fn.Pkg] = true
		if fn.Synthetic != "package initializer" && i.cfg.InitAllowed(fn.Pkg.Pkg.Path()) {
			if f := fn.Pkg.Func("init"); f != nil {
				saved := i.curInstr
				call(i, nil, token.NoPos, f, nil)
				i.curInstr = saved
			}
		}
	}
	i.res.Funcs[fn] = struct{}{}
	if i.cfg.Trace {
		fmt.Fprintf(os.Stderr, "g%d: enter %s\n", i.cur.id, fn)
	}

	fr.env = make(map[ssa.Value]value)
	fr.block = fn.Blocks[0]
	fr.locals = make([]value, len(fn.Locals))
	for k, l := range fn.Locals {
		fr.locals[k] = zero(mustDeref(l.Type()))
		fr.env[l] = &fr.locals[k]
	}
	for k, p := range fn.Params {
		fr.env[p] = args[k]
	}
	for k, fv := range fn.FreeVars {
		fr.env[fv] = env[k]
	}
	for fr.block != nil {
		runFrame(fr)
	}
	return fr.result
}

func runFrame(fr *frame) {
	defer func() {
		if fr.block == nil {
			return // normal return
		}
		r := recover()
		if a, ok := r.(abortPath); ok {
			panic(a)
		}
		if s, ok := r.(string); ok && strings.HasPrefix(s, "symx internal") {
			panic(r)
		}
		fr.panicking = true
		fr.panic = r
		fr.runDefers()
		fr.block = fr.fn.Recover
	}()

	for {
		nonPhis := executePhis(fr)
		for _, instr := range nonPhis {
			if visitInstr(fr, instr) == kReturn {
				return
			}
		}
	}
}

func executePhis(fr *frame) []ssa.Instruction {
	firstNonPhi := -1
	for i, instr := range fr.block.Instrs {
		if _, ok := instr.(*ssa.Phi); !ok {
			firstNonPhi = i
			break
		}
	}
	nonPhis := fr.block.Instrs[firstNonPhi:]
	if firstNonPhi > 0 {
		phis := fr.block.Instrs[:firstNonPhi]
		predIndex := slices.Index(fr.block.Preds, fr.prevBlock)
		fr.phitemps = fr.phitemps[:0]
		for _, phi := range phis {
			phi := phi.(*ssa.Phi)
			fr.phitemps = append(fr.phitemps, fr.get(phi.Edges[predIndex]))
		}
		for i, phi := range phis {
			fr.env[phi.(*ssa.Phi)] = fr.phitemps[i]
		}
	}
	return nonPhis
}

func doRecover(caller *frame) value {
	if caller != nil && !caller.panicking &&
		caller.caller != nil && caller.caller.panicking {
		p := caller.caller.panic
		if _, ok := p.(abortPath); ok {
			return iface{}
		}
		caller.caller.panicking = false
		caller.caller.panic = nil
		switch p := p.(type) {
		case targetPanic:
			return p.v
		case runtime.Error:
			return iface{caller.i.runtimeErrorString, p.Error()}
		case string:
			return iface{caller.i.runtimeErrorString, p}
		default:
			panic(fmt.Sprintf("unexpected panic type %T in target call to recover()", p))
		}
	}
	return iface{}
}

// finish ends the run; called by the goroutine holding the baton.
func (i *interpreter) finish(r interface{}, g *goroutine) {
	if i.finishedFlag {
		return
	}
	i.finishedFlag = true
	res := i.res
	switch r := r.(type) {
	case nil:
		res.Status = "ok"
	case abortPath:
		res.Status, res.Msg = r.Status, r.Msg
	case targetPanic:
		res.Status = "panic-escape"
		res.Msg = fmt.Sprintf("goroutine %s: panic: %s", g.entry, toString(r.v))
	case runtime.Error:
		res.Status = "panic-escape"
		res.Msg = fmt.Sprintf("goroutine %s: panic: %s", g.entry, r.Error())
		if _, mine := r.(runtimeError); !mine {
			// a Go runtime error inside the interpreter itself: slice/index on interpreter
			// values mirrors the target's; anything else is an engine bug.
			msg := r.Error()
			if !strings.Contains(msg, "index out of range") && !strings.Contains(msg, "slice bounds out of range") &&
				!strings.Contains(msg, "nil map") && !strings.Contains(msg, "nil pointer") && !strings.Contains(msg, "divide by zero") {
				res.Status = "engine-error"
				buf := make([]byte, 8192)
				n := runtime.Stack(buf, false)
				res.Msg += "\n" + string(buf[:n])
			}
		}
	default:
		res.Status = "engine-error"
		buf := make([]byte, 16384)
		n := runtime.Stack(buf, false)
		res.Msg = fmt.Sprintf("goroutine %s: %v\n%s", g.entry, r, buf[:n])
	}
	if res.Status == "panic-escape" || res.Status == "engine-error" {
		res.Msg += " at " + i.site()
	}
	close(i.dead)
	close(i.finished)
}

// Execute runs entry() under cfg and returns what happened.
func Execute(cfg *Config, entry *ssa.Function) *Result {
	if cfg.MaxSteps == 0 {
		cfg.MaxSteps = 50_000_000
	}
	if cfg.MaxRecords == 0 {
		cfg.MaxRecords = 20000
	}
	if cfg.MaxGoroutines == 0 {
		cfg.MaxGoroutines = 2000
	}
	if cfg.InitAllowed == nil {
		cfg.InitAllowed = func(string) bool { return false }
	}
	if cfg.NoopPkg == nil {
		cfg.NoopPkg = func(string) bool { return false }
	}
	i := &interpreter{
		cfg:      cfg,
		prog:     cfg.Prog,
		globals:  make(map[*ssa.Global]*value),
		sizes:    cfg.Sizes,
		tb:       term.NewBuilder(),
		varCount: map[string]int{},
		dead:     make(chan struct{}),
		finished: make(chan struct{}),
		mutexes:  map[*value]*mutexState{},
		side:     map[interface{}]interface{}{},
		inited:   map[*ssa.Package]bool{},
	}
	i.res = &Result{TB: i.tb, Funcs: map[*ssa.Function]struct{}{}}
	i.now = vtime{sec: int64(unixToInternal + 1_600_000_000), nsec: int64(0)}
	if cfg.ExploreSched {
		cfg.Sched = schedChoice
		cfg.Preempt = preemptChoice
		i.race = &raceState{vc: map[int]*vclock{}, mem: map[interface{}]*shadow{}, syncs: map[interface{}]*vclock{}, reads: map[interface{}]*vclock{}, report: map[string]bool{}}
	}
	runtimePkg := i.prog.ImportedPackage("runtime")
	if runtimePkg == nil {
		panic("ssa.Program doesn't include runtime package")
	}
	i.runtimeErrorString = runtimePkg.Type("errorString").Object().Type()

	main := &closureEntry{i: i, entry: entry}
	g0 := i.spawn(main, nil, token.NoPos, "harness")
	i.cur = g0
	g0.resume <- struct{}{}
	<-i.finished
	i.wg.Wait()
	if i.res.Status == "ok" {
		for _, ev := range i.res.Events {
			if ev.Kind == "race" {
				i.res.Status, i.res.Msg = "violation", "no-data-race"
				i.res.Events = append(i.res.Events, Event{Kind: "violation", Label: "no-data-race", Value: ev.Value})
				break
			}
		}
	}
	i.res.Path = i.path
	i.res.Steps = i.steps
	i.res.Goroutines = len(i.gs)
	return i.res
}

// closureEntry is the harness goroutine body: package inits, then entry.
type closureEntry struct {
	i     *interpreter
	entry *ssa.Function
}

func (i *interpreter) runEntry(e *closureEntry) {
	for _, p := range i.cfg.InitPkgs {
		if f := p.Func("init"); f != nil {
			s0 := i.steps
			call(i, nil, token.NoPos, f, nil)
			if i.cfg.Trace {
				fmt.Fprintf(os.Stderr, "init %s: %d steps\n", p.Pkg.Path(), i.steps-s0)
			}
		}
	}
	call(i, nil, token.NoPos, e.entry, nil)
}
