package interp

import (
	"go/types"
	"reflect"
	"strconv"
	"strings"

	"symx/term"
)

// proto.Size: the exact proto3 encoded size of a message, as a 64-bit quantity with a shadow term
// when a scalar field is symbolic (the varint length is a piecewise function of the value). Maps and
// oneofs are not sized (unsupported).

type psz struct {
	c uint64
	t *term.Term // nil: concrete
}

func (i *interpreter) pszTerm(a psz) *term.Term {
	if a.t != nil {
		return a.t
	}
	return i.tb.BV(64, a.c)
}
func (i *interpreter) pszAdd(a, b psz) psz {
	r := psz{c: a.c + b.c}
	if a.t != nil || b.t != nil {
		r.t = i.tb.Bin(term.BvAdd, i.pszTerm(a), i.pszTerm(b))
	}
	return r
}
func varintLenC(v uint64) uint64 {
	n := uint64(1)
	for v >= 0x80 {
		v >>= 7
		n++
	}
	return n
}

// pszVarintLen: number of bytes of the varint encoding of a.
func (i *interpreter) pszVarintLen(a psz) psz {
	r := psz{c: varintLenC(a.c)}
	if a.t != nil {
		t := i.tb.BV(64, 10)
		for k := 9; k >= 1; k-- {
			t = i.tb.Ite(i.tb.Cmp(term.BvUlt, a.t, i.tb.BV(64, uint64(1)<<(7*uint(k)))), i.tb.BV(64, uint64(k)), t)
		}
		r.t = t
	}
	return r
}

// pszIfNonZero: a if cond (concrete condC / term condT) else 0.
func (i *interpreter) pszIf(condC bool, condT *term.Term, a psz) psz {
	r := psz{}
	if condC {
		r.c = a.c
	}
	if condT != nil {
		r.t = i.tb.Ite(condT, i.pszTerm(a), i.tb.BV(64, 0))
	} else if condC {
		r.t = a.t
	}
	return r
}

func protoTag(st *types.Struct, k int) (wire string, num uint64, packed bool) {
	parts := strings.Split(reflect.StructTag(st.Tag(k)).Get("protobuf"), ",")
	if len(parts) < 2 {
		return "", 0, false
	}
	n, _ := strconv.ParseUint(parts[1], 10, 64)
	packed = true // proto3 default for repeated scalars
	return parts[0], n, packed
}

func wireType(wire string) uint64 {
	switch wire {
	case "varint", "zigzag32", "zigzag64":
		return 0
	case "fixed64":
		return 1
	case "bytes":
		return 2
	case "fixed32":
		return 5
	}
	unsupported("protobuf model: wire type %q", wire)
	return 0
}

// scalarBits returns the 64-bit value a varint field is encoded from (sign-extended for signed
// kinds) as concrete value and optional term.
func (i *interpreter) scalarBits(v value) (uint64, *term.Term, bool) {
	var t *term.Term
	c := v
	if x, ok := v.(sv); ok {
		c, t = x.c, x.t
	}
	w, signed, ok := kindOf(c)
	if !ok {
		return 0, nil, false
	}
	if w == 0 {
		b := toBits(c)
		if t != nil {
			t = i.tb.BoolToBV(t, 64)
		}
		return b, t, true
	}
	bits := toBits(c) // toBits sign-extends signed kinds through the Go conversion
	if !signed && w < 64 {
		bits &= (uint64(1) << uint(w)) - 1
	}
	if t != nil && w < 64 {
		if signed {
			t = i.tb.SExt(t, 64)
		} else {
			t = i.tb.ZExt(t, 64)
		}
	}
	return bits, t, true
}

func (i *interpreter) sizeScalar(wire string, key uint64, v value) psz {
	switch wire {
	case "varint":
		bits, t, ok := i.scalarBits(v)
		if !ok {
			unsupported("protobuf model: Size of scalar %T", v)
		}
		var nz *term.Term
		if t != nil {
			nz = i.tb.Not(i.tb.Eq(t, i.tb.BV(64, 0)))
		}
		return i.pszIf(bits != 0, nz, i.pszAdd(psz{c: key}, i.pszVarintLen(psz{bits, t})))
	case "fixed64", "fixed32":
		n := uint64(8)
		if wire == "fixed32" {
			n = 4
		}
		switch x := v.(type) {
		case float64:
			if x == 0 {
				return psz{}
			}
			return psz{c: key + n}
		case float32:
			if x == 0 {
				return psz{}
			}
			return psz{c: key + n}
		}
		bits, t, ok := i.scalarBits(v)
		if !ok {
			unsupported("protobuf model: Size of fixed %T", v)
		}
		var nz *term.Term
		if t != nil {
			nz = i.tb.Not(i.tb.Eq(t, i.tb.BV(64, 0)))
		}
		return i.pszIf(bits != 0, nz, psz{c: key + n})
	}
	unsupported("protobuf model: Size of wire type %q", wire)
	return psz{}
}

func (i *interpreter) sizeField(st *types.Struct, k int, v value) psz {
	wire, num, _ := protoTag(st, k)
	if wire == "" {
		return psz{}
	}
	key := varintLenC(num<<3 | wireType(wire))
	t := st.Field(k).Type()
	lenDelim := func(n psz) psz { return i.pszAdd(psz{c: key}, i.pszAdd(i.pszVarintLen(n), n)) }
	switch ut := t.Underlying().(type) {
	case *types.Basic:
		if ut.Info()&types.IsString != 0 {
			n := uint64(strLen(v))
			if n == 0 {
				return psz{}
			}
			return lenDelim(psz{c: n})
		}
		return i.sizeScalar(wire, key, v)
	case *types.Slice:
		s, _ := v.([]value)
		if b, ok := ut.Elem().Underlying().(*types.Basic); ok && b.Kind() == types.Uint8 {
			if len(s) == 0 {
				return psz{}
			}
			return lenDelim(psz{c: uint64(len(s))})
		}
		total := psz{}
		if mst, _ := structOfMsg(ut.Elem()); mst != nil {
			for _, e := range s {
				total = i.pszAdd(total, lenDelim(i.sizeMsg(ut.Elem(), e)))
			}
			return total
		}
		if b, ok := ut.Elem().Underlying().(*types.Basic); ok && b.Info()&types.IsString != 0 {
			for _, e := range s {
				total = i.pszAdd(total, lenDelim(psz{c: uint64(strLen(e))}))
			}
			return total
		}
		if bs, ok := ut.Elem().Underlying().(*types.Slice); ok {
			if b, ok := bs.Elem().Underlying().(*types.Basic); ok && b.Kind() == types.Uint8 {
				for _, e := range s {
					es, _ := e.([]value)
					total = i.pszAdd(total, lenDelim(psz{c: uint64(len(es))}))
				}
				return total
			}
		}
		// packed repeated scalars
		if len(s) == 0 {
			return psz{}
		}
		for _, e := range s {
			switch wire {
			case "varint":
				bits, tm, ok := i.scalarBits(e)
				if !ok {
					unsupported("protobuf model: Size of repeated %T", e)
				}
				total = i.pszAdd(total, i.pszVarintLen(psz{bits, tm}))
			case "fixed64":
				total = i.pszAdd(total, psz{c: 8})
			case "fixed32":
				total = i.pszAdd(total, psz{c: 4})
			default:
				unsupported("protobuf model: Size of repeated wire type %q", wire)
			}
		}
		return i.pszAdd(psz{c: varintLenC(num<<3 | 2)}, i.pszAdd(i.pszVarintLen(total), total))
	case *types.Pointer:
		if mst, _ := structOfMsg(t); mst != nil {
			if v.(*value) == nil {
				return psz{}
			}
			return lenDelim(i.sizeMsg(t, v))
		}
	case *types.Map:
		if m, _ := v.(*omap); m.len() == 0 {
			return psz{}
		}
	case *types.Interface:
		if v.(iface).t == nil {
			return psz{}
		}
	}
	unsupported("protobuf model: Size of field of type %s", t)
	return psz{}
}

// sizeMsg: encoded size of the message v (static type t = *T); a nil element counts as empty.
func (i *interpreter) sizeMsg(t types.Type, v value) psz {
	st, _ := structOfMsg(t)
	p, _ := v.(*value)
	if p == nil {
		return psz{}
	}
	src := (*p).(structure)
	total := psz{}
	for k := 0; k < st.NumFields(); k++ {
		if !protoFieldTag(st, k) {
			continue
		}
		total = i.pszAdd(total, i.sizeField(st, k, src[k]))
	}
	return total
}

func extProtoSize(fr *frame, args []value) value {
	i := fr.i
	m := args[0].(iface)
	if m.t == nil {
		return 0
	}
	st, _ := structOfMsg(m.t)
	if st == nil {
		unsupported("protobuf model: Size of %s", m.t)
	}
	r := i.sizeMsg(m.t, m.v)
	return i.mk(int(r.c), r.t)
}
