// Package term is a hash-consed DAG of fixed-width bit-vector and Boolean
// terms with constant folding, SMT-LIB2 printing and concrete evaluation.
package term

import (
	"fmt"
	"strings"
)

type Op uint8

const (
	Const Op = iota
	Var
	Not
	And
	Or
	Ite
	Eq
	BvNot
	BvNeg
	BvAnd
	BvOr
	BvXor
	BvAdd
	BvSub
	BvMul
	BvUDiv
	BvURem
	BvSDiv
	BvSRem
	BvShl
	BvLShr
	BvAShr
	BvUlt
	BvUle
	BvSlt
	BvSle
	ZExt
	SExt
	Extract
	Concat
)

var opNames = [...]string{"const", "var", "not", "and", "or", "ite", "=", "bvnot", "bvneg", "bvand", "bvor", "bvxor",
	"bvadd", "bvsub", "bvmul", "bvudiv", "bvurem", "bvsdiv", "bvsrem", "bvshl", "bvlshr", "bvashr",
	"bvult", "bvule", "bvslt", "bvsle", "zero_extend", "sign_extend", "extract", "concat"}

// Term is an immutable node. W==0 means Bool, otherwise a bit-vector of W bits (W<=64).
type Term struct {
	Op     Op
	W      int
	A      []*Term
	V      uint64 // Const value (bool: 0/1)
	Name   string // Var
	Hi, Lo int    // Extract
	ID     int
	H      uint64 // structural hash (stable across builders)
}

type key struct {
	op         Op
	w          int
	v          uint64
	name       string
	hi, lo     int
	a0, a1, a2 int
}

// Builder hash-conses terms. Not safe for concurrent use.
type Builder struct {
	tab  map[key]*Term
	next int
	Vars []*Term // in creation order
}

func NewBuilder() *Builder { return &Builder{tab: map[key]*Term{}} }

func mask(w int) uint64 {
	if w >= 64 {
		return ^uint64(0)
	}
	return (uint64(1) << uint(w)) - 1
}

func (b *Builder) mk(t Term) *Term {
	k := key{op: t.Op, w: t.W, v: t.V, name: t.Name, hi: t.Hi, lo: t.Lo, a0: -1, a1: -1, a2: -1}
	if len(t.A) > 0 {
		k.a0 = t.A[0].ID
	}
	if len(t.A) > 1 {
		k.a1 = t.A[1].ID
	}
	if len(t.A) > 2 {
		k.a2 = t.A[2].ID
	}
	if len(t.A) > 3 {
		panic("term: arity > 3")
	}
	if r, ok := b.tab[k]; ok {
		return r
	}
	n := new(Term)
	*n = t
	h := uint64(t.Op)*0x9E3779B97F4A7C15 ^ uint64(t.W)<<8 ^ t.V*0xBF58476D1CE4E5B9 ^ uint64(t.Hi)<<20 ^ uint64(t.Lo)<<28
	for _, c := range t.Name {
		h = h*1099511628211 ^ uint64(c)
	}
	for _, a := range t.A {
		h = (h ^ a.H) * 0x94D049BB133111EB
		h ^= h >> 29
	}
	n.H = h
	n.ID = b.next
	b.next++
	b.tab[k] = n
	if t.Op == Var {
		b.Vars = append(b.Vars, n)
	}
	return n
}

func (b *Builder) Size() int { return b.next }

func (b *Builder) BV(w int, v uint64) *Term { return b.mk(Term{Op: Const, W: w, V: v & mask(w)}) }
func (b *Builder) Bool(v bool) *Term {
	if v {
		return b.mk(Term{Op: Const, W: 0, V: 1})
	}
	return b.mk(Term{Op: Const, W: 0, V: 0})
}
func (b *Builder) True() *Term  { return b.Bool(true) }
func (b *Builder) False() *Term { return b.Bool(false) }
func (b *Builder) NewVar(name string, w int) *Term {
	return b.mk(Term{Op: Var, W: w, Name: name})
}

func (t *Term) IsConst() bool { return t.Op == Const }
func (t *Term) IsTrue() bool  { return t.Op == Const && t.W == 0 && t.V == 1 }
func (t *Term) IsFalse() bool { return t.Op == Const && t.W == 0 && t.V == 0 }

func sext(v uint64, w int) int64 {
	if w >= 64 {
		return int64(v)
	}
	sh := uint(64 - w)
	return int64(v<<sh) >> sh
}

// evalOp computes op over constant args.
func evalOp(op Op, w int, hi, lo int, a []uint64, aw []int) uint64 {
	switch op {
	case Not:
		return a[0] ^ 1
	case And:
		return a[0] & a[1]
	case Or:
		return a[0] | a[1]
	case Ite:
		if a[0] != 0 {
			return a[1]
		}
		return a[2]
	case Eq:
		if a[0] == a[1] {
			return 1
		}
		return 0
	case BvNot:
		return ^a[0] & mask(w)
	case BvNeg:
		return (-a[0]) & mask(w)
	case BvAnd:
		return a[0] & a[1]
	case BvOr:
		return a[0] | a[1]
	case BvXor:
		return a[0] ^ a[1]
	case BvAdd:
		return (a[0] + a[1]) & mask(w)
	case BvSub:
		return (a[0] - a[1]) & mask(w)
	case BvMul:
		return (a[0] * a[1]) & mask(w)
	case BvUDiv:
		if a[1] == 0 {
			return mask(w)
		}
		return a[0] / a[1]
	case BvURem:
		if a[1] == 0 {
			return a[0]
		}
		return a[0] % a[1]
	case BvSDiv:
		x, y := sext(a[0], w), sext(a[1], w)
		if y == 0 {
			if x >= 0 {
				return mask(w)
			}
			return 1
		}
		if y == -1 {
			return uint64(-x) & mask(w)
		}
		return uint64(x/y) & mask(w)
	case BvSRem:
		x, y := sext(a[0], w), sext(a[1], w)
		if y == 0 {
			return a[0]
		}
		if y == -1 {
			return 0
		}
		return uint64(x%y) & mask(w)
	case BvShl:
		if a[1] >= uint64(w) {
			return 0
		}
		return (a[0] << a[1]) & mask(w)
	case BvLShr:
		if a[1] >= uint64(w) {
			return 0
		}
		return a[0] >> a[1]
	case BvAShr:
		x := sext(a[0], w)
		s := a[1]
		if s >= uint64(w) {
			s = uint64(w - 1)
		}
		return uint64(x>>s) & mask(w)
	case BvUlt:
		return b2u(a[0] < a[1])
	case BvUle:
		return b2u(a[0] <= a[1])
	case BvSlt:
		return b2u(sext(a[0], aw[0]) < sext(a[1], aw[1]))
	case BvSle:
		return b2u(sext(a[0], aw[0]) <= sext(a[1], aw[1]))
	case ZExt:
		return a[0]
	case SExt:
		return uint64(sext(a[0], aw[0])) & mask(w)
	case Extract:
		return (a[0] >> uint(lo)) & mask(hi-lo+1)
	case Concat:
		return ((a[0] << uint(aw[1])) | a[1]) & mask(w)
	}
	panic("evalOp: " + opNames[op])
}

func b2u(b bool) uint64 {
	if b {
		return 1
	}
	return 0
}

func (b *Builder) app(op Op, w int, hi, lo int, args ...*Term) *Term {
	all := true
	for _, a := range args {
		if a.Op != Const {
			all = false
			break
		}
	}
	if all {
		vs := make([]uint64, len(args))
		ws := make([]int, len(args))
		for i, a := range args {
			vs[i], ws[i] = a.V, a.W
		}
		v := evalOp(op, w, hi, lo, vs, ws)
		if w == 0 {
			return b.Bool(v != 0)
		}
		return b.BV(w, v)
	}
	return b.mk(Term{Op: op, W: w, A: args, Hi: hi, Lo: lo})
}

func (b *Builder) Not(x *Term) *Term {
	if x.Op == Not {
		return x.A[0]
	}
	return b.app(Not, 0, 0, 0, x)
}
func (b *Builder) And(x, y *Term) *Term {
	if x.IsTrue() {
		return y
	}
	if y.IsTrue() {
		return x
	}
	if x.IsFalse() || y.IsFalse() {
		return b.False()
	}
	if x == y {
		return x
	}
	return b.app(And, 0, 0, 0, x, y)
}
func (b *Builder) Or(x, y *Term) *Term {
	if x.IsFalse() {
		return y
	}
	if y.IsFalse() {
		return x
	}
	if x.IsTrue() || y.IsTrue() {
		return b.True()
	}
	if x == y {
		return x
	}
	return b.app(Or, 0, 0, 0, x, y)
}
func (b *Builder) Ite(c, x, y *Term) *Term {
	if c.IsTrue() {
		return x
	}
	if c.IsFalse() {
		return y
	}
	if x == y {
		return x
	}
	if x.W == 0 {
		if x.IsTrue() && y.IsFalse() {
			return c
		}
		if x.IsFalse() && y.IsTrue() {
			return b.Not(c)
		}
	}
	return b.app(Ite, x.W, 0, 0, c, x, y)
}
func (b *Builder) Eq(x, y *Term) *Term {
	if x == y {
		return b.True()
	}
	if x.W != y.W {
		panic(fmt.Sprintf("term.Eq: width mismatch %d vs %d", x.W, y.W))
	}
	if x.W == 0 {
		if y.IsTrue() {
			return x
		}
		if x.IsTrue() {
			return y
		}
		if y.IsFalse() {
			return b.Not(x)
		}
		if x.IsFalse() {
			return b.Not(y)
		}
	}
	if x.ID > y.ID {
		x, y = y, x
	}
	return b.app(Eq, 0, 0, 0, x, y)
}

// Bin builds a binary bit-vector operation (result width = x.W).
func (b *Builder) Bin(op Op, x, y *Term) *Term {
	if x.W != y.W || x.W == 0 {
		panic(fmt.Sprintf("term.Bin %s: widths %d %d", opNames[op], x.W, y.W))
	}
	switch op {
	case BvAdd:
		if y.Op == Const && y.V == 0 {
			return x
		}
		if x.Op == Const && x.V == 0 {
			return y
		}
	case BvSub:
		if y.Op == Const && y.V == 0 {
			return x
		}
		if x == y {
			return b.BV(x.W, 0)
		}
	case BvAnd:
		if x == y {
			return x
		}
		if y.Op == Const && y.V == mask(x.W) {
			return x
		}
		if x.Op == Const && x.V == mask(x.W) {
			return y
		}
		if (y.Op == Const && y.V == 0) || (x.Op == Const && x.V == 0) {
			return b.BV(x.W, 0)
		}
	case BvOr, BvXor:
		if y.Op == Const && y.V == 0 {
			return x
		}
		if x.Op == Const && x.V == 0 {
			return y
		}
	case BvMul:
		if y.Op == Const && y.V == 1 {
			return x
		}
		if x.Op == Const && x.V == 1 {
			return y
		}
	case BvShl, BvLShr, BvAShr:
		if y.Op == Const && y.V == 0 {
			return x
		}
	case BvURem:
		if y.Op == Const && y.V == 1 {
			return b.BV(x.W, 0)
		}
	case BvUDiv:
		if y.Op == Const && y.V == 1 {
			return x
		}
	}
	return b.app(op, x.W, 0, 0, x, y)
}

// Cmp builds a comparison (result Bool).
func (b *Builder) Cmp(op Op, x, y *Term) *Term {
	if x.W != y.W || x.W == 0 {
		panic(fmt.Sprintf("term.Cmp %s: widths %d %d", opNames[op], x.W, y.W))
	}
	if x == y {
		return b.Bool(op == BvUle || op == BvSle)
	}
	return b.app(op, 0, 0, 0, x, y)
}
func (b *Builder) Un(op Op, x *Term) *Term { return b.app(op, x.W, 0, 0, x) }

func (b *Builder) ZExt(x *Term, w int) *Term {
	if w == x.W {
		return x
	}
	if w < x.W {
		return b.Extract(x, w-1, 0)
	}
	return b.app(ZExt, w, 0, 0, x)
}
func (b *Builder) SExt(x *Term, w int) *Term {
	if w == x.W {
		return x
	}
	if w < x.W {
		return b.Extract(x, w-1, 0)
	}
	return b.app(SExt, w, 0, 0, x)
}
func (b *Builder) Extract(x *Term, hi, lo int) *Term {
	if lo == 0 && hi == x.W-1 {
		return x
	}
	// extract of zext/sext within the original width
	if (x.Op == ZExt || x.Op == SExt) && hi < x.A[0].W {
		return b.Extract(x.A[0], hi, lo)
	}
	if x.Op == Concat {
		lw := x.A[1].W
		if hi < lw {
			return b.Extract(x.A[1], hi, lo)
		}
		if lo >= lw {
			return b.Extract(x.A[0], hi-lw, lo-lw)
		}
	}
	return b.app(Extract, hi-lo+1, hi, lo, x)
}
func (b *Builder) Concat(hi, lo *Term) *Term {
	return b.app(Concat, hi.W+lo.W, 0, 0, hi, lo)
}

// BoolToBV converts Bool to a 1/0 bit-vector of width w.
func (b *Builder) BoolToBV(c *Term, w int) *Term { return b.Ite(c, b.BV(w, 1), b.BV(w, 0)) }

// Eval evaluates t under env (variables missing from env are 0).
func Eval(t *Term, env map[string]uint64, memo map[int]uint64) uint64 {
	if memo == nil {
		memo = map[int]uint64{}
	}
	if v, ok := memo[t.ID]; ok {
		return v
	}
	var r uint64
	switch t.Op {
	case Const:
		r = t.V
	case Var:
		r = env[t.Name] & mask(max(t.W, 1))
	default:
		vs := make([]uint64, len(t.A))
		ws := make([]int, len(t.A))
		if t.Op == Ite {
			c := Eval(t.A[0], env, memo)
			if c != 0 {
				r = Eval(t.A[1], env, memo)
			} else {
				r = Eval(t.A[2], env, memo)
			}
			memo[t.ID] = r
			return r
		}
		for i, a := range t.A {
			vs[i] = Eval(a, env, memo)
			ws[i] = a.W
		}
		r = evalOp(t.Op, t.W, t.Hi, t.Lo, vs, ws)
	}
	memo[t.ID] = r
	return r
}

func sortOf(w int) string {
	if w == 0 {
		return "Bool"
	}
	return fmt.Sprintf("(_ BitVec %d)", w)
}

func QuoteName(n string) string { return "|" + strings.NewReplacer("|", "_", "\\", "_").Replace(n) + "|" }

// Printer emits SMT-LIB definitions incrementally: every non-leaf node becomes
// a define-fun named t<ID>, every variable a declare-const.
type Printer struct {
	done map[int]bool
}

func NewPrinter() *Printer { return &Printer{done: map[int]bool{}} }

func (p *Printer) Ref(t *Term) string {
	switch t.Op {
	case Const:
		if t.W == 0 {
			if t.V != 0 {
				return "true"
			}
			return "false"
		}
		return fmt.Sprintf("(_ bv%d %d)", t.V, t.W)
	case Var:
		return QuoteName(t.Name)
	}
	return fmt.Sprintf("t%d", t.ID)
}

// Define writes to sb every definition needed (and not yet emitted) for t.
func (p *Printer) Define(sb *strings.Builder, t *Term) {
	if p.done[t.ID] {
		return
	}
	// iterative post-order to avoid deep recursion
	type fr struct {
		t *Term
		i int
	}
	stack := []fr{{t, 0}}
	for len(stack) > 0 {
		top := &stack[len(stack)-1]
		if p.done[top.t.ID] {
			stack = stack[:len(stack)-1]
			continue
		}
		if top.i < len(top.t.A) {
			c := top.t.A[top.i]
			top.i++
			if !p.done[c.ID] {
				stack = append(stack, fr{c, 0})
			}
			continue
		}
		n := top.t
		stack = stack[:len(stack)-1]
		p.done[n.ID] = true
		switch n.Op {
		case Const:
		case Var:
			fmt.Fprintf(sb, "(declare-const %s %s)\n", QuoteName(n.Name), sortOf(n.W))
		default:
			fmt.Fprintf(sb, "(define-fun t%d () %s ", n.ID, sortOf(n.W))
			switch n.Op {
			case ZExt:
				fmt.Fprintf(sb, "((_ zero_extend %d) %s)", n.W-n.A[0].W, p.Ref(n.A[0]))
			case SExt:
				fmt.Fprintf(sb, "((_ sign_extend %d) %s)", n.W-n.A[0].W, p.Ref(n.A[0]))
			case Extract:
				fmt.Fprintf(sb, "((_ extract %d %d) %s)", n.Hi, n.Lo, p.Ref(n.A[0]))
			default:
				sb.WriteString("(" + opNames[n.Op])
				for _, a := range n.A {
					sb.WriteString(" " + p.Ref(a))
				}
				sb.WriteString(")")
			}
			sb.WriteString(")\n")
		}
	}
}

func (t *Term) String() string {
	var sb strings.Builder
	t.str(&sb, 0)
	return sb.String()
}

func (t *Term) str(sb *strings.Builder, d int) {
	if d > 6 {
		sb.WriteString("…")
		return
	}
	switch t.Op {
	case Const:
		if t.W == 0 {
			fmt.Fprintf(sb, "%v", t.V != 0)
		} else {
			fmt.Fprintf(sb, "%d", t.V)
		}
	case Var:
		sb.WriteString(t.Name)
	default:
		sb.WriteString("(" + opNames[t.Op])
		if t.Op == Extract {
			fmt.Fprintf(sb, "[%d:%d]", t.Hi, t.Lo)
		}
		for _, a := range t.A {
			sb.WriteString(" ")
			a.str(sb, d+1)
		}
		sb.WriteString(")")
	}
}

// CollectVars returns the variables occurring in the given terms.
func CollectVars(ts ...*Term) []*Term {
	seen := map[int]bool{}
	var out []*Term
	var walk func(t *Term)
	walk = func(t *Term) {
		if seen[t.ID] {
			return
		}
		seen[t.ID] = true
		if t.Op == Var {
			out = append(out, t)
		}
		for _, a := range t.A {
			walk(a)
		}
	}
	for _, t := range ts {
		walk(t)
	}
	return out
}
