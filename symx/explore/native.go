package explore

import (
	"bufio"
	"bytes"
	"encoding/json"
	"fmt"
	"os"
	"os/exec"
	"path/filepath"
	"sort"
	"strings"
	"time"
)

type NativeVector struct {
	Harness string            `json:"harness"`
	Vars    map[string]uint64 `json:"vars"`
	Params  map[string]int    `json:"params"`
	Known   []string          `json:"known"`
}

type NativeOutcome struct {
	Harness  string   `json:"harness"`
	Status   string   `json:"status"`
	Label    string   `json:"label"`
	Msg      string   `json:"msg"`
	Observed []string `json:"observed"`
	Known    []string `json:"known_seen"`
	Covers   []string `json:"covers"`
	Crashed  bool     `json:"-"`
	Missing  bool     `json:"-"`
}

// NativeReplay runs the given vectors through the same harness functions compiled
// natively against /repo (go test -overlay). All harnesses must live in pkgDir.
func (p *Program) NativeReplay(pkgDir string, pkgName string, vectors []NativeVector, timeout time.Duration) ([]NativeOutcome, string, error) {
	return p.nativeReplay(pkgDir, pkgName, vectors, timeout, false)
}

// NativeReplaySlow is NativeReplay with ten times longer settling pauses (rt.Quiesce), used to
// re-check a witness whose first native run disagreed with the engine before calling it a mismatch.
func (p *Program) NativeReplaySlow(pkgDir string, pkgName string, vectors []NativeVector, timeout time.Duration) ([]NativeOutcome, string, error) {
	return p.nativeReplay(pkgDir, pkgName, vectors, timeout, true)
}

func (p *Program) nativeReplay(pkgDir string, pkgName string, vectors []NativeVector, timeout time.Duration, slow bool) ([]NativeOutcome, string, error) {
	if len(vectors) == 0 {
		return nil, "", nil
	}
	tmp, err := os.MkdirTemp("", "symxreplay")
	if err != nil {
		return nil, "", err
	}
	defer os.RemoveAll(tmp)
	// generated test driver
	names := map[string]bool{}
	for _, v := range vectors {
		names[v.Harness] = true
	}
	var ns []string
	for n := range names {
		ns = append(ns, n)
	}
	sort.Strings(ns)
	var tb strings.Builder
	fmt.Fprintf(&tb, "package %s\n\nimport (\n\t\"testing\"\n\trt \"%s/zzsymxrt\"\n)\n\nfunc TestSymxReplay(t *testing.T) {\n\terr := rt.RunNative(map[string]func(){\n", pkgName, Module)
	for _, n := range ns {
		short := n[strings.LastIndex(n, ".")+1:]
		fmt.Fprintf(&tb, "\t\t%q: %s,\n", n, short)
	}
	tb.WriteString("\t})\n\tif err != nil {\n\t\tt.Fatal(err)\n\t}\n}\n")
	testFile := filepath.Join(tmp, "replay_test.go")
	if err := os.WriteFile(testFile, []byte(tb.String()), 0644); err != nil {
		return nil, "", err
	}
	repl := map[string]string{}
	for virt, real := range p.OvFiles {
		repl[virt] = real
	}
	repl[filepath.Join(p.Repo, pkgDir, "zz_symx_replay_test.go")] = testFile
	ovb, _ := json.Marshal(map[string]interface{}{"Replace": repl})
	ovFile := filepath.Join(tmp, "overlay.json")
	os.WriteFile(ovFile, ovb, 0644)
	inFile, outFile := filepath.Join(tmp, "in.json"), filepath.Join(tmp, "out.jsonl")

	results := make([]NativeOutcome, len(vectors))
	for k := range results {
		results[k].Missing = true
	}
	var logs strings.Builder
	start := 0
	for attempt := 0; start < len(vectors) && attempt < 25; attempt++ {
		vb, _ := json.Marshal(vectors[start:])
		os.WriteFile(inFile, vb, 0644)
		os.Remove(outFile)
		cmd := exec.Command("go", "test", "-vet=off", "-count=1", "-run", "^TestSymxReplay$", "-overlay", ovFile, "-timeout", fmt.Sprintf("%ds", int(timeout.Seconds())), "./"+pkgDir)
		cmd.Dir = p.Repo
		cmd.Env = append(os.Environ(), "GOFLAGS=-mod=mod", "GOPROXY=off", "GOSUMDB=off", "GOTOOLCHAIN=local",
			"SYMX_INPUT="+inFile, "SYMX_OUTPUT="+outFile)
		if slow {
			cmd.Env = append(cmd.Env, "SYMX_SLOW=1")
		}
		var ob bytes.Buffer
		cmd.Stdout, cmd.Stderr = &ob, &ob
		runErr := cmd.Run()
		logs.WriteString(ob.String())
		f, err := os.Open(outFile)
		if err != nil {
			return nil, logs.String(), fmt.Errorf("native replay produced no output: %v\n%s", runErr, ob.String())
		}
		sc := bufio.NewScanner(f)
		sc.Buffer(make([]byte, 1<<20), 1<<26)
		begun, finished := -1, -1
		for sc.Scan() {
			line := sc.Bytes()
			var b struct {
				Begin *int `json:"begin"`
			}
			if json.Unmarshal(line, &b) == nil && b.Begin != nil {
				begun = *b.Begin
				continue
			}
			var o NativeOutcome
			if err := json.Unmarshal(line, &o); err == nil && o.Status != "" {
				finished = begun
				results[start+begun] = o
			}
		}
		f.Close()
		if begun > finished {
			// the process died inside vector `begun`
			msg := ob.String()
			if len(msg) > 1500 {
				msg = msg[:1500]
			}
			results[start+begun] = NativeOutcome{Harness: vectors[start+begun].Harness, Status: "panic", Msg: "process crashed: " + msg, Crashed: true}
			start = start + begun + 1
			continue
		}
		if runErr != nil && finished < len(vectors[start:])-1 {
			return results, logs.String(), fmt.Errorf("native replay failed: %v\n%s", runErr, ob.String())
		}
		break
	}
	return results, logs.String(), nil
}
