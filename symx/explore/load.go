// Package explore loads /repo with the harness overlay, drives the concolic
// search, discharges obligations with an SMT solver and replays natively.
package explore

import (
	"fmt"
	"go/types"
	"os"
	"path/filepath"
	"sort"
	"strings"
	"time"

	"golang.org/x/tools/go/packages"
	"golang.org/x/tools/go/ssa"
	"golang.org/x/tools/go/ssa/ssautil"
)

const Module = "github.com/vx-labs/wasp/v4"

type Program struct {
	Prog     *ssa.Program
	Pkgs     []*ssa.Package
	Overlay  map[string][]byte // virtual path -> content
	OvFiles  map[string]string // virtual path -> real path (for go test -overlay)
	LoadTime time.Duration
	Repo     string
}

// harnessOverlay maps every file under harnessDir/<rel>/x.go to repo/<rel>/zz_symx_x.go
// and harnessDir/rt/*.go to repo/zzsymxrt/.
func harnessOverlay(repo, harnessDir string) (map[string][]byte, map[string]string, error) {
	ov := map[string][]byte{}
	files := map[string]string{}
	err := filepath.Walk(harnessDir, func(p string, info os.FileInfo, err error) error {
		if err != nil {
			return err
		}
		if info.IsDir() || !strings.HasSuffix(p, ".go") {
			return nil
		}
		rel, _ := filepath.Rel(harnessDir, p)
		dir, base := filepath.Split(rel)
		dir = strings.TrimSuffix(dir, "/")
		var virt string
		switch {
		case dir == "rt":
			virt = filepath.Join(repo, "zzsymxrt", base)
		case strings.HasPrefix(dir, "stubs"):
			virt = filepath.Join(repo, "zzsymx"+strings.ReplaceAll(dir, "/", ""), base)
		default:
			virt = filepath.Join(repo, dir, "zz_symx_"+base)
		}
		b, err := os.ReadFile(p)
		if err != nil {
			return err
		}
		ov[virt] = b
		files[virt] = p
		return nil
	})
	return ov, files, err
}

// Load type-checks and builds SSA for the given package patterns (relative to repo)
// from the current working tree plus the harness overlay.
func Load(repo, harnessDir string, patterns []string) (*Program, error) {
	t0 := time.Now()
	ov, files, err := harnessOverlay(repo, harnessDir)
	if err != nil {
		return nil, err
	}
	cfg := &packages.Config{
		Mode:    packages.LoadAllSyntax,
		Dir:     repo,
		Overlay: ov,
		Env:     append(os.Environ(), "GOFLAGS=-mod=mod", "GOPROXY=off", "GOSUMDB=off", "GOTOOLCHAIN=local"),
	}
	initial, err := packages.Load(cfg, patterns...)
	if err != nil {
		return nil, err
	}
	var errs []string
	packages.Visit(initial, nil, func(p *packages.Package) {
		if strings.HasPrefix(p.PkgPath, Module) {
			for _, e := range p.Errors {
				errs = append(errs, e.Error())
			}
		}
	})
	if len(errs) > 0 {
		return nil, fmt.Errorf("load errors:\n%s", strings.Join(errs, "\n"))
	}
	prog, pkgs := ssautil.AllPackages(initial, ssa.InstantiateGenerics|ssa.SanityCheckFunctions&0)
	prog.Build()
	var out []*ssa.Package
	for _, p := range pkgs {
		if p != nil {
			out = append(out, p)
		}
	}
	return &Program{Prog: prog, Pkgs: out, Overlay: ov, OvFiles: files, LoadTime: time.Since(t0), Repo: repo}, nil
}

// FindFunc resolves "pkgpath.Func".
func (p *Program) FindFunc(full string) *ssa.Function {
	k := strings.LastIndex(full, ".")
	if k < 0 {
		return nil
	}
	pkg := p.Prog.ImportedPackage(full[:k])
	if pkg == nil {
		return nil
	}
	return pkg.Func(full[k+1:])
}

// InitOrder returns the module's packages (and a few interpretable std/dep packages)
// in dependency order, for running package initialisers.
func (p *Program) InitOrder(allowed func(string) bool) []*ssa.Package {
	var order []*ssa.Package
	seen := map[*types.Package]bool{}
	var visit func(tp *types.Package)
	visit = func(tp *types.Package) {
		if seen[tp] {
			return
		}
		seen[tp] = true
		imps := tp.Imports()
		sort.Slice(imps, func(a, b int) bool { return imps[a].Path() < imps[b].Path() })
		for _, im := range imps {
			visit(im)
		}
		if allowed(tp.Path()) && (strings.HasPrefix(tp.Path(), Module) || strings.HasPrefix(tp.Path(), "github.com/vx-labs/")) {
			if sp := p.Prog.Package(tp); sp != nil {
				order = append(order, sp)
			}
		}
	}
	all := p.Prog.AllPackages()
	sort.Slice(all, func(a, b int) bool { return all[a].Pkg.Path() < all[b].Pkg.Path() })
	for _, sp := range all {
		if strings.HasPrefix(sp.Pkg.Path(), Module) {
			visit(sp.Pkg)
		}
	}
	return order
}
