package explore

import (
	"crypto/sha1"
	"encoding/hex"
	"fmt"
	"os"
	"sort"
	"strings"
	"sync"
	"time"

	"golang.org/x/tools/go/ssa"

	"symx/interp"
	"symx/smt"
	"symx/term"
)

// HarnessSpec describes one harness run.
type HarnessSpec struct {
	Name     string         // full function name
	Params   map[string]int // concrete bounds
	Solver   string         // z3 | cvc5-int | ...
	MaxPaths int
	Sched    bool // explore schedules
	MaxPre   int
	MapOrder []string
}

type Counterexample struct {
	Harness  string            `json:"harness"`
	Label    string            `json:"label"`
	Status   string            `json:"status"`
	Msg      string            `json:"msg,omitempty"`
	Vars     map[string]uint64 `json:"vars"`
	Params   map[string]int    `json:"params"`
	Known    []string          `json:"known"`
	Observed []string          `json:"observed,omitempty"`
	Site     string            `json:"site,omitempty"`
	Sched    []int             `json:"schedule,omitempty"`
	Native   string            `json:"native_replay,omitempty"`
}

type PathSample struct {
	Harness  string            `json:"harness"`
	Vars     map[string]uint64 `json:"vars"`
	Status   string            `json:"status"`
	Records  int               `json:"branch_records"`
	Observed []string          `json:"observed,omitempty"`
	Covers   []string          `json:"covers,omitempty"`
}

type Stats struct {
	Paths, Distinct, Records       int
	Flips, FlipSat, FlipUnsat      int
	Obligations, Discharged        int
	ConcreteAsserts                int
	Unknown                        int
	SecondOpinions                 int // queries the primary solver could not decide, decided by another solver
	AssumeFailed                   int
	Completed                      int // paths that ran to the end of the harness
	Diverged                       int
	SolverTime                     time.Duration
	InterpTime                     time.Duration
	Steps                          int64
	MaxGoroutines                  int
	Truncated                      bool
	Inconclusive                   []string
	CoverReached, CoverHit         map[string]bool
	AssertLabels                   map[string]int
	KnownSeen                      map[string]bool
	Funcs                          map[string]bool
	Cex                            []Counterexample
	Samples                        []PathSample
	Witnesses                      []Witness
}

// Witness is an explored path kept for native replay.
type Witness struct {
	Harness  string
	Vars     map[string]uint64
	Params   map[string]int
	Status   string
	Label    string
	Observed []string
}

type item struct {
	inputs map[string]uint64
	bound  int // records [0,bound] are inherited; flip only beyond
	expect []recSig
	expectViolation string
	exclPos int      // position of a concretize record being enumerated (-1: none)
	excl    []uint64 // values already explored at exclPos
}

type recSig struct {
	instr ssa.Instruction
	taken bool
	kind  interp.RecKind
}

type Explorer struct {
	P       *Program
	Known   map[string]bool
	Workers int
	Timeout int // per query ms
	Verbose bool
	Budget  time.Duration

	mu      sync.Mutex
	cond    *sync.Cond
	queue   []*item
	active  int
	stats   *Stats
	sigs    map[string]bool
	spec    HarnessSpec
	fn      *ssa.Function
	inits   []*ssa.Package
	start   time.Time
	stop    bool
	redirect map[string]*ssa.Function
}

func initAllowed(path string) bool {
	if path == Module+"/wasp/stats" || path == Module+"/wasp/audit" || path == Module+"/wasp/taps" {
		return false
	}
	if strings.HasPrefix(path, Module) || strings.HasPrefix(path, "github.com/vx-labs/mqtt-protocol") {
		return true
	}
	switch path {
	case "sort", "context", "io", "bytes", "strings", "unicode/utf8", "encoding/binary",
		"container/heap", "container/list", "strconv", "math", "math/bits", "internal/itoa", "bufio",
		"github.com/google/btree", "github.com/pkg/errors":
		return true
	}
	return false
}

func noopPkg(path string) bool {
	switch {
	case strings.HasPrefix(path, "go.uber.org/zap"),
		strings.HasPrefix(path, "github.com/prometheus/"),
		path == Module+"/wasp/stats",
		strings.HasPrefix(path, "github.com/golang/protobuf"),
		strings.HasPrefix(path, "google.golang.org/protobuf"),
		strings.HasPrefix(path, "github.com/gogo/protobuf"),
		strings.HasPrefix(path, "google.golang.org/grpc"),
		strings.HasPrefix(path, "google.golang.org/genproto"),
		path == "log", path == "expvar":
		return true
	}
	return false
}

func (e *Explorer) baseConfig(inputs map[string]uint64) *interp.Config {
	return &interp.Config{
		Prog:         e.P.Prog,
		InitPkgs:     e.inits,
		InitAllowed:  initAllowed,
		NoopPkg:      noopPkg,
		Redirect:     e.redirect,
		Inputs:       inputs,
		Known:        e.Known,
		Params:       e.spec.Params,
		MapOrderFns:  e.spec.MapOrder,
		ExploreSched: e.spec.Sched,
		Trace:        os.Getenv("SYMX_TRACE") != "",
		MaxPreempt:   e.spec.MaxPre,
	}
}

// buildRedirects scans overlay sources for "//symx:stub <target> = <replacement>" directives.
func (e *Explorer) buildRedirects() error {
	e.redirect = map[string]*ssa.Function{}
	for path, src := range e.P.Overlay {
		for _, line := range strings.Split(string(src), "\n") {
			line = strings.TrimSpace(line)
			if !strings.HasPrefix(line, "//symx:stub ") {
				continue
			}
			parts := strings.SplitN(strings.TrimPrefix(line, "//symx:stub "), "=", 2)
			if len(parts) != 2 {
				return fmt.Errorf("%s: bad directive %q", path, line)
			}
			target, repl := strings.TrimSpace(parts[0]), strings.TrimSpace(parts[1])
			f := e.P.FindFunc(repl)
			if f == nil {
				// replacement package not loaded in this run: skip silently
				continue
			}
			e.redirect[target] = f
		}
	}
	return nil
}

// Run explores one harness exhaustively (within budgets) and returns statistics.
func (e *Explorer) Run(spec HarnessSpec) (*Stats, error) {
	fn := e.P.FindFunc(spec.Name)
	if fn == nil {
		return nil, fmt.Errorf("harness %s not found", spec.Name)
	}
	if e.redirect == nil {
		if err := e.buildRedirects(); err != nil {
			return nil, err
		}
	}
	e.spec, e.fn = spec, fn
	e.inits = e.P.InitOrder(initAllowed)
	e.stats = &Stats{CoverReached: map[string]bool{}, CoverHit: map[string]bool{}, AssertLabels: map[string]int{},
		KnownSeen: map[string]bool{}, Funcs: map[string]bool{}}
	e.sigs = map[string]bool{}
	e.queue = []*item{{inputs: map[string]uint64{}, bound: -1, exclPos: -1}}
	e.active = 0
	e.stop = false
	e.start = time.Now()
	e.cond = sync.NewCond(&e.mu)
	if spec.Solver == "" {
		spec.Solver = "z3"
		e.spec.Solver = "z3"
	}
	if e.Workers <= 0 {
		e.Workers = 16
	}
	var wg sync.WaitGroup
	errs := make(chan error, e.Workers)
	for w := 0; w < e.Workers; w++ {
		wg.Add(1)
		go func(w int) {
			defer wg.Done()
			if err := e.worker(w); err != nil {
				errs <- err
				e.mu.Lock()
				e.stop = true
				e.cond.Broadcast()
				e.mu.Unlock()
			}
		}(w)
	}
	wg.Wait()
	select {
	case err := <-errs:
		return e.stats, err
	default:
	}
	return e.stats, nil
}

func (e *Explorer) next() *item {
	e.mu.Lock()
	defer e.mu.Unlock()
	for {
		if e.stop {
			return nil
		}
		if len(e.queue) > 0 {
			it := e.queue[len(e.queue)-1]
			e.queue = e.queue[:len(e.queue)-1]
			e.active++
			return it
		}
		if e.active == 0 {
			e.cond.Broadcast()
			return nil
		}
		e.cond.Wait()
	}
}

func (e *Explorer) done(newItems []*item) {
	e.mu.Lock()
	e.queue = append(e.queue, newItems...)
	e.active--
	e.cond.Broadcast()
	e.mu.Unlock()
}

func (e *Explorer) inconclusive(format string, a ...interface{}) {
	e.mu.Lock()
	msg := fmt.Sprintf(format, a...)
	if len(e.stats.Inconclusive) < 20 {
		e.stats.Inconclusive = append(e.stats.Inconclusive, msg)
	}
	e.mu.Unlock()
}

func pathSig(res *interp.Result) string {
	h := sha1.New()
	for _, r := range res.Path {
		fmt.Fprintf(h, "%x/%v/%d;", r.Cond.H, r.Taken, r.Kind)
	}
	for _, v := range res.Vars {
		fmt.Fprintf(h, "%s,", v.Name)
	}
	fmt.Fprintf(h, "%s|%v", res.Status, res.SchedLog)
	return hex.EncodeToString(h.Sum(nil))
}

func (e *Explorer) worker(w int) error {
	solver, err := smt.New(e.spec.Solver, e.Timeout)
	if err != nil {
		return err
	}
	defer solver.Close()
	if os.Getenv("SYMX_SMTLOG") != "" && w == 0 {
		f, _ := os.Create(os.Getenv("SYMX_SMTLOG"))
		solver.Log = f
	}
	for {
		it := e.next()
		if it == nil {
			e.mu.Lock()
			e.stats.SolverTime += solver.Stats.Time
			e.mu.Unlock()
			return nil
		}
		newItems, err := e.process(solver, it)
		e.done(newItems)
		if err != nil {
			return err
		}
	}
}

// secondOpinion re-asks a query the primary solver answered "unknown" to another solver
// (a fresh context: every conjunct of the path prefix plus the extra assertions).
func (e *Explorer) secondOpinion(fb **smt.Solver, vars []*term.Term, conj []*term.Term) (smt.Result, map[string]uint64) {
	kinds := []string{"z3", "z3-new"}
	if e.spec.Solver == "z3" {
		kinds = []string{"cvc5-int", "z3-new"}
	}
	for _, kind := range kinds {
		if *fb == nil || (*fb).Kind != kind {
			if *fb != nil {
				(*fb).Close()
			}
			s, err := smt.New(kind, e.Timeout)
			if err != nil {
				continue
			}
			*fb = s
		}
		s := *fb
		pr := term.NewPrinter()
		var sb strings.Builder
		sb.WriteString("(push 1)\n")
		for _, v := range vars {
			pr.Define(&sb, v)
		}
		for _, c := range conj {
			pr.Define(&sb, c)
			sb.WriteString("(assert " + pr.Ref(c) + ")\n")
		}
		s.Send(sb.String())
		r, err := s.Check()
		var m map[string]uint64
		if err == nil && r == smt.Sat {
			m, err = s.Model(vars)
		}
		s.Send("(pop 1)\n")
		if err == nil && r != smt.Unknown {
			e.mu.Lock()
			e.stats.SecondOpinions++
			e.mu.Unlock()
			return r, m
		}
	}
	return smt.Unknown, nil
}

func condOf(tb *term.Builder, r interp.Record) *term.Term {
	if r.Taken {
		return r.Cond
	}
	return tb.Not(r.Cond)
}

func (e *Explorer) process(solver *smt.Solver, it *item) ([]*item, error) {
	t0 := time.Now()
	cfg := e.baseConfig(it.inputs)
	res := interp.Execute(cfg, e.fn)
	dt := time.Since(t0)

	st := e.stats
	e.mu.Lock()
	st.Paths++
	st.InterpTime += dt
	st.Steps += res.Steps
	st.Records += len(res.Path)
	if res.Goroutines > st.MaxGoroutines {
		st.MaxGoroutines = res.Goroutines
	}
	sig := pathSig(res)
	if !e.sigs[sig] {
		e.sigs[sig] = true
		st.Distinct++
	}
	for f := range res.Funcs {
		st.Funcs[f.String()] = true
	}
	var observed, covers []string
	for _, ev := range res.Events {
		switch ev.Kind {
		case "cover":
			st.CoverHit[ev.Label] = true
			covers = append(covers, ev.Label)
		case "cover-reached":
			st.CoverReached[ev.Label] = true
		case "assert-ok":
			st.AssertLabels[ev.Label]++
			st.ConcreteAsserts++
		case "known":
			st.KnownSeen[ev.Label] = true
		case "observe":
			observed = append(observed, ev.Label+"="+ev.Value)
		}
	}
	for _, o := range res.Obligations {
		st.AssertLabels[o.Label]++
	}
	vars := map[string]uint64{}
	for _, v := range res.Vars {
		vars[v.Name] = v.Val
	}
	if res.Status != "assume-failed" && (len(st.Samples) < 8 || (len(covers) > 0 && len(st.Samples) < 24)) {
		st.Samples = append(st.Samples, PathSample{Harness: e.spec.Name, Vars: vars, Status: res.Status, Records: len(res.Path), Observed: observed, Covers: covers})
	}
	if (res.Status == "ok" || res.Status == "violation" || res.Status == "panic-escape") && len(st.Witnesses) < 400 {
		st.Witnesses = append(st.Witnesses, Witness{Harness: e.spec.Name, Vars: vars, Params: e.spec.Params, Status: res.Status, Label: res.Msg, Observed: observed})
	}
	tooMany := e.spec.MaxPaths > 0 && st.Paths >= e.spec.MaxPaths
	overBudget := e.Budget > 0 && time.Since(e.start) > e.Budget
	if (tooMany || overBudget) && !st.Truncated {
		st.Truncated = true
		e.stop = true
		e.cond.Broadcast()
	}
	e.mu.Unlock()
	if e.Verbose {
		fmt.Fprintf(os.Stderr, "path %d: status=%s records=%d steps=%d %v vars=%v %s\n", st.Paths, res.Status, len(res.Path), res.Steps, dt, vars, res.Msg)
	}

	// divergence check against the expected prefix
	if it.expect != nil {
		ok := len(res.Path) >= len(it.expect)
		if ok {
			for k, s := range it.expect {
				r := res.Path[k]
				if r.Instr != s.instr || r.Taken != s.taken {
					ok = false
					break
				}
			}
		}
		if !ok {
			if e.Verbose {
				for k, s := range it.expect {
					if k < len(res.Path) {
						r := res.Path[k]
						if r.Instr == s.instr && r.Taken == s.taken {
							continue
						}
						fmt.Fprintf(os.Stderr, "  DIV %d: expect %s %v %v | got %s %v %v %s\n", k, instrSite(e.P.Prog, s.instr), s.taken, s.kind, instrSite(e.P.Prog, r.Instr), r.Taken, r.Kind, r.Cond)
					} else {
						fmt.Fprintf(os.Stderr, "  DIV %d: expect %s %v %v | got nothing\n", k, instrSite(e.P.Prog, s.instr), s.taken, s.kind)
					}
				}
			}
			e.mu.Lock()
			st.Diverged++
			e.mu.Unlock()
			e.inconclusive("path diverged from its predicted prefix (harness %s, inputs %v)", e.spec.Name, it.inputs)
			return nil, nil
		}
	}

	if it.expectViolation != "" && res.Status != "violation" {
		e.inconclusive("counterexample for %s produced by the solver did not reproduce in the engine (status %s)", it.expectViolation, res.Status)
	}
	switch res.Status {
	case "ok", "assume-failed":
		if res.Status == "ok" {
			e.mu.Lock()
			st.Completed++
			e.mu.Unlock()
		}
		if res.Status == "assume-failed" {
			e.mu.Lock()
			st.AssumeFailed++
			e.mu.Unlock()
		}
	case "violation", "panic-escape", "deadlock":
		label := res.Msg
		site := ""
		if res.Status == "panic-escape" {
			label = "no-panic"
		}
		if res.Status == "deadlock" {
			// every goroutine of the system under test is blocked for ever: a stall is a violation
			label = "no-deadlock"
		}
		for _, ev := range res.Events {
			if ev.Kind == "violation" {
				site = ev.Value
			}
		}
		var known []string
		for k, v := range e.Known {
			if v {
				known = append(known, k)
			}
		}
		sort.Strings(known)
		e.mu.Lock()
		n := 0
		for _, c := range st.Cex {
			if c.Label == label {
				n++
			}
		}
		if n < 3 {
			st.Cex = append(st.Cex, Counterexample{Harness: e.spec.Name, Label: label, Status: res.Status, Msg: res.Msg, Vars: vars,
				Params: e.spec.Params, Known: known, Observed: observed, Site: site, Sched: res.SchedLog})
		}
		e.mu.Unlock()
	default:
		e.inconclusive("%s: %s (harness %s, inputs %v)", res.Status, res.Msg, e.spec.Name, it.inputs)
	}

	// ---- solver phase: obligations and flips along this path ----
	tb := res.TB
	pr := term.NewPrinter()
	var sb strings.Builder
	solver.Send("(push 1)\n")
	defer solver.Send("(pop 1)\n")
	var out []*item
	oblIdx := 0
	obls := res.Obligations
	allVars := func() []*term.Term { return tb.Vars }
	var asserted []*term.Term
	var fallback *smt.Solver
	defer func() {
		if fallback != nil {
			fallback.Close()
		}
	}()
	modelInputsFrom := func(given map[string]uint64) (map[string]uint64, error) {
		m := given
		if m == nil {
			var err error
			m, err = solver.Model(allVars())
			if err != nil {
				return nil, err
			}
		}
		in := map[string]uint64{}
		for k, v := range it.inputs {
			in[k] = v
		}
		for k, v := range vars {
			in[k] = v
		}
		for k, v := range m {
			in[k] = v
		}
		return in, nil
	}
	emit := func(t *term.Term) string {
		sb.Reset()
		pr.Define(&sb, t)
		solver.Send(sb.String())
		return pr.Ref(t)
	}
	// make sure every variable is declared (get-value needs them)
	for _, v := range tb.Vars {
		emit(v)
	}
	sigOf := func(k int) []recSig {
		s := make([]recSig, k+1)
		for j := 0; j <= k; j++ {
			r := res.Path[j]
			s[j] = recSig{r.Instr, r.Taken, r.Kind}
		}
		s[k].taken = !s[k].taken
		return s
	}
	for k := 0; k <= len(res.Path); k++ {
		// obligations placed before record k
		for oblIdx < len(obls) && obls[oblIdx].Pos == k {
			o := obls[oblIdx]
			oblIdx++
			if k <= it.bound {
				continue // identical prefix already discharged by the parent path
			}
			ref := emit(o.Cond)
			solver.Send("(push 1)\n(assert (not " + ref + "))\n")
			r, err := solver.Check()
			e.mu.Lock()
			st.Obligations++
			e.mu.Unlock()
			var fbModel map[string]uint64
			if err == nil && r == smt.Unknown {
				r, fbModel = e.secondOpinion(&fallback, allVars(), append(append([]*term.Term{}, asserted...), tb.Not(o.Cond)))
			}
			switch {
			case err != nil || r == smt.Unknown:
				e.mu.Lock()
				st.Unknown++
				e.mu.Unlock()
				e.inconclusive("obligation %s: solver answered unknown (%v)", o.Label, err)
			case r == smt.Unsat:
				e.mu.Lock()
				st.Discharged++
				e.mu.Unlock()
			case r == smt.Sat:
				in, merr := modelInputsFrom(fbModel)
				if merr != nil {
					e.inconclusive("obligation %s: model error %v", o.Label, merr)
				} else {
					out = append(out, &item{inputs: in, bound: len(res.Path) + 1<<20, expectViolation: o.Label, exclPos: -1})
				}
			}
			solver.Send("(pop 1)\n")
		}
		if k == len(res.Path) {
			break
		}
		r := res.Path[k]
		c := condOf(tb, r)
		if k > it.bound && r.Kind != interp.RecAssume && !e.stopped() {
			ref := emit(tb.Not(c))
			var excl []uint64
			if r.Kind == interp.RecConcretize && r.Sym != nil {
				if it.exclPos == k {
					excl = append(excl, it.excl...)
				}
				for _, x := range excl {
					ref2 := emit(tb.Not(tb.Eq(r.Sym, tb.BV(r.Sym.W, x))))
					ref = "(and " + ref + " " + ref2 + ")"
				}
				excl = append(excl, r.Conc)
			}
			solver.Send("(push 1)\n(assert " + ref + ")\n")
			v, err := solver.Check()
			e.mu.Lock()
			st.Flips++
			e.mu.Unlock()
			var fbModel map[string]uint64
			if err == nil && v == smt.Unknown {
				extra := []*term.Term{tb.Not(c)}
				for _, x := range excl[:max(len(excl)-1, 0)] {
					extra = append(extra, tb.Not(tb.Eq(r.Sym, tb.BV(r.Sym.W, x))))
				}
				v, fbModel = e.secondOpinion(&fallback, allVars(), append(append([]*term.Term{}, asserted...), extra...))
			}
			switch {
			case err != nil || v == smt.Unknown:
				e.mu.Lock()
				st.Unknown++
				e.mu.Unlock()
				e.inconclusive("flip at %s: solver answered unknown (%v)", instrSite(e.P.Prog, r.Instr), err)
			case v == smt.Sat:
				in, merr := modelInputsFrom(fbModel)
				if merr != nil {
					e.inconclusive("flip model error: %v", merr)
				} else {
					// validate the model against the terms (guards the printer/solver)
					env := in
					memo := map[int]uint64{}
					okm := term.Eval(tb.Not(c), env, memo) == 1
					for j := 0; j < k && okm; j++ {
						okm = term.Eval(condOf(tb, res.Path[j]), env, memo) == 1
					}
					if !okm {
						e.inconclusive("solver model does not satisfy the path condition (engine/solver mismatch) at %s", instrSite(e.P.Prog, r.Instr))
					} else if excl != nil {
						sg := sigOf(k)
						sg[k].taken = true
						out = append(out, &item{inputs: in, bound: k - 1, expect: sg, exclPos: k, excl: excl})
					} else {
						out = append(out, &item{inputs: in, bound: k, expect: sigOf(k), exclPos: -1})
					}
				}
				e.mu.Lock()
				st.FlipSat++
				e.mu.Unlock()
			default:
				e.mu.Lock()
				st.FlipUnsat++
				e.mu.Unlock()
			}
			solver.Send("(pop 1)\n")
		}
		solver.Send("(assert " + emit(c) + ")\n")
		asserted = append(asserted, c)
	}
	return out, nil
}

func (e *Explorer) stopped() bool {
	e.mu.Lock()
	defer e.mu.Unlock()
	return e.stop
}

func instrSite(prog *ssa.Program, in ssa.Instruction) string {
	if in == nil {
		return "?"
	}
	p := prog.Fset.Position(in.Pos())
	fn := ""
	if in.Parent() != nil {
		fn = in.Parent().String()
	}
	return fmt.Sprintf("%s@%s:%d", fn, p.Filename, p.Line)
}

// RunOnce executes the harness on one concrete input vector (no exploration).
func (e *Explorer) RunOnce(spec HarnessSpec, inputs map[string]uint64) (*interp.Result, error) {
	fn := e.P.FindFunc(spec.Name)
	if fn == nil {
		return nil, fmt.Errorf("harness %s not found", spec.Name)
	}
	if e.redirect == nil {
		if err := e.buildRedirects(); err != nil {
			return nil, err
		}
	}
	e.spec, e.fn = spec, fn
	e.inits = e.P.InitOrder(initAllowed)
	return interp.Execute(e.baseConfig(inputs), fn), nil
}
