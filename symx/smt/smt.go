// Package smt drives a long-lived SMT solver process over stdin/stdout.
package smt

import (
	"bufio"
	"fmt"
	"io"
	"os/exec"
	"strconv"
	"strings"
	"time"

	"symx/term"
)

type Result int

const (
	Unknown Result = iota
	Sat
	Unsat
)

func (r Result) String() string { return [...]string{"unknown", "sat", "unsat"}[r] }

type Stats struct {
	Queries, Sat, Unsat, Unknown, Errors int
	Time                                 time.Duration
}

type Solver struct {
	Kind  string
	cmd   *exec.Cmd
	in    io.WriteCloser
	out   *bufio.Reader
	Stats Stats
	// LastError holds the last "(error" line seen
	LastError string
	Log       io.Writer
}

// New starts a solver. kind: "z3", "z3-new", "cvc5", "cvc5-int".
func New(kind string, timeoutMs int) (*Solver, error) {
	var cmd *exec.Cmd
	switch kind {
	case "z3":
		cmd = exec.Command("z3", "-in", fmt.Sprintf("-t:%d", timeoutMs))
	case "z3-new":
		cmd = exec.Command("z3-new", "-in", fmt.Sprintf("-t:%d", timeoutMs))
	case "cvc5":
		cmd = exec.Command("cvc5", "--incremental", "--produce-models", "--lang=smt2", fmt.Sprintf("--tlimit-per=%d", timeoutMs))
	case "cvc5-int":
		cmd = exec.Command("cvc5", "--incremental", "--produce-models", "--lang=smt2", "--solve-bv-as-int=sum", fmt.Sprintf("--tlimit-per=%d", timeoutMs))
	default:
		return nil, fmt.Errorf("unknown solver kind %q", kind)
	}
	in, err := cmd.StdinPipe()
	if err != nil {
		return nil, err
	}
	outp, err := cmd.StdoutPipe()
	if err != nil {
		return nil, err
	}
	cmd.Stderr = cmd.Stdout
	if err := cmd.Start(); err != nil {
		return nil, err
	}
	s := &Solver{Kind: kind, cmd: cmd, in: in, out: bufio.NewReaderSize(outp, 1<<16)}
	if strings.HasPrefix(kind, "cvc5") {
		s.Send("(set-logic ALL)\n")
	}
	s.Send("(set-option :produce-models true)\n")
	return s, nil
}

func (s *Solver) Close() {
	if s == nil || s.cmd == nil {
		return
	}
	s.in.Close()
	s.cmd.Process.Kill()
	s.cmd.Wait()
	s.cmd = nil
}

func (s *Solver) Send(text string) {
	if s.Log != nil {
		io.WriteString(s.Log, text)
	}
	io.WriteString(s.in, text)
}

func (s *Solver) readLine() (string, error) {
	l, err := s.out.ReadString('\n')
	if err != nil {
		return "", err
	}
	return strings.TrimSpace(l), nil
}

// Check issues (check-sat) and returns the verdict. An "(error" line makes the result Unknown.
func (s *Solver) Check() (Result, error) {
	t0 := time.Now()
	s.Send("(check-sat)\n")
	sawErr := false
	for {
		l, err := s.readLine()
		if err != nil {
			return Unknown, fmt.Errorf("solver %s died: %v", s.Kind, err)
		}
		if l == "" {
			continue
		}
		if strings.HasPrefix(l, "(error") {
			s.LastError = l
			s.Stats.Errors++
			sawErr = true
			continue
		}
		s.Stats.Queries++
		s.Stats.Time += time.Since(t0)
		switch l {
		case "sat":
			if sawErr {
				s.Stats.Unknown++
				return Unknown, fmt.Errorf("solver error: %s", s.LastError)
			}
			s.Stats.Sat++
			return Sat, nil
		case "unsat":
			if sawErr {
				s.Stats.Unknown++
				return Unknown, fmt.Errorf("solver error: %s", s.LastError)
			}
			s.Stats.Unsat++
			return Unsat, nil
		default:
			s.Stats.Unknown++
			return Unknown, nil
		}
	}
}

// Model fetches values of vars after a Sat verdict.
func (s *Solver) Model(vars []*term.Term) (map[string]uint64, error) {
	m := map[string]uint64{}
	if len(vars) == 0 {
		return m, nil
	}
	var sb strings.Builder
	sb.WriteString("(get-value (")
	for _, v := range vars {
		sb.WriteString(term.QuoteName(v.Name))
		sb.WriteString(" ")
	}
	sb.WriteString("))\n")
	s.Send(sb.String())
	// read balanced s-expression
	var txt strings.Builder
	depth := 0
	started := false
	inQuote := false
	for !started || depth > 0 {
		l, err := s.out.ReadString('\n')
		if err != nil {
			return nil, fmt.Errorf("solver %s died: %v", s.Kind, err)
		}
		if strings.HasPrefix(strings.TrimSpace(l), "(error") {
			s.LastError = strings.TrimSpace(l)
			s.Stats.Errors++
			return nil, fmt.Errorf("solver error: %s", s.LastError)
		}
		for _, c := range l {
			switch {
			case c == '|':
				inQuote = !inQuote
			case inQuote:
			case c == '(':
				depth++
				started = true
			case c == ')':
				depth--
			}
		}
		txt.WriteString(l)
	}
	toks := tokenize(txt.String())
	// grammar: ( ( name value ) ... )
	i := 0
	expect := func(t string) error {
		if i >= len(toks) || toks[i] != t {
			return fmt.Errorf("model parse: expected %q at %d in %v", t, i, toks)
		}
		i++
		return nil
	}
	if err := expect("("); err != nil {
		return nil, err
	}
	for i < len(toks) && toks[i] == "(" {
		i++
		name := toks[i]
		i++
		var val uint64
		switch {
		case toks[i] == "(":
			// (_ bvN W)
			if toks[i+1] != "_" || !strings.HasPrefix(toks[i+2], "bv") {
				return nil, fmt.Errorf("model parse: unexpected value %v", toks[i:i+4])
			}
			v, err := strconv.ParseUint(toks[i+2][2:], 10, 64)
			if err != nil {
				return nil, err
			}
			val = v
			i += 5
		case toks[i] == "true":
			val = 1
			i++
		case toks[i] == "false":
			val = 0
			i++
		case strings.HasPrefix(toks[i], "#x"):
			v, err := strconv.ParseUint(toks[i][2:], 16, 64)
			if err != nil {
				return nil, err
			}
			val = v
			i++
		case strings.HasPrefix(toks[i], "#b"):
			v, err := strconv.ParseUint(toks[i][2:], 2, 64)
			if err != nil {
				return nil, err
			}
			val = v
			i++
		default:
			return nil, fmt.Errorf("model parse: unexpected token %q", toks[i])
		}
		if err := expect(")"); err != nil {
			return nil, err
		}
		name = strings.Trim(name, "|")
		m[name] = val
	}
	return m, nil
}

func tokenize(s string) []string {
	var toks []string
	i := 0
	for i < len(s) {
		c := s[i]
		switch {
		case c == '(' || c == ')':
			toks = append(toks, string(c))
			i++
		case c == ' ' || c == '\n' || c == '\t' || c == '\r':
			i++
		case c == '|':
			j := strings.IndexByte(s[i+1:], '|')
			toks = append(toks, s[i:i+j+2])
			i += j + 2
		default:
			j := i
			for j < len(s) && !strings.ContainsRune("() \n\t\r", rune(s[j])) {
				j++
			}
			toks = append(toks, s[i:j])
			i = j
		}
	}
	return toks
}
