package main

import (
	"sort"
	"strings"
	"time"
)

func buildEvidence(prop, tier string, seed int64, pd PropDef, rs []hres, validated, violations int, seen map[string]bool,
	wall time.Duration, inconclusive, mismatches []string) map[string]interface{} {
	states, transitions := 0, 0
	flips, flipSat, flipUnsat, obl, dis, conc, unknown := 0, 0, 0, 0, 0, 0, 0
	var solverTime, interpTime float64
	funcs := map[string]bool{}
	var samples []interface{}
	harnesses := []interface{}{}
	covers := map[string]bool{}
	labels := map[string]int{}
	exhaustive := true
	for _, r := range rs {
		st := r.st
		states += st.Distinct
		transitions += st.Records
		flips += st.Flips
		flipSat += st.FlipSat
		flipUnsat += st.FlipUnsat
		obl += st.Obligations
		dis += st.Discharged
		conc += st.ConcreteAsserts
		unknown += st.Unknown
		solverTime += st.SolverTime.Seconds()
		interpTime += st.InterpTime.Seconds()
		if st.Truncated {
			exhaustive = false
		}
		for f := range st.Funcs {
			if strings.Contains(f, "vx-labs") && !strings.Contains(f, "zzsymx") && !strings.Contains(f, ".symx") {
				funcs[f] = true
			}
		}
		for k, s := range st.Samples {
			if k < 4 {
				samples = append(samples, s)
			}
		}
		for c := range st.CoverHit {
			covers[c] = true
		}
		for l, n := range st.AssertLabels {
			labels[l] += n
		}
		solver := r.def.Solver
		if solver == "" {
			solver = "z3"
		}
		harnesses = append(harnesses, map[string]interface{}{
			"harness": r.def.Fn, "bounds": r.params, "solver": solver, "paths": st.Paths, "distinct_paths": st.Distinct,
			"branch_records": st.Records, "flip_queries": st.Flips, "obligations": st.Obligations, "discharged_unsat": st.Discharged,
			"assertions_decided_concretely_on_path": st.ConcreteAsserts, "solver_unknown": st.Unknown, "decided_by_second_solver": st.SecondOpinions,
			"counterexamples": len(st.Cex), "solver_time_s": st.SolverTime.Seconds(), "interp_time_s": st.InterpTime.Seconds(),
			"instructions": st.Steps, "max_goroutines": st.MaxGoroutines, "schedule_symbolic": r.def.Sched,
		})
	}
	if len(inconclusive) > 0 {
		exhaustive = false
	}
	var fl []string
	for f := range funcs {
		fl = append(fl, f)
	}
	sort.Strings(fl)
	var cl, kl []string
	for c := range covers {
		cl = append(cl, c)
	}
	sort.Strings(cl)
	for k := range seen {
		kl = append(kl, k)
	}
	sort.Strings(kl)
	if len(samples) == 0 {
		samples = append(samples, "no path explored")
	}
	if states == 0 {
		states = 0
	}
	cov := map[string]interface{}{
		"states":                        states,
		"transitions":                   transitions,
		"traces_validated_against_impl": validated,
		"samples":                       samples,
		"exhaustive":                    exhaustive,
		"explanation": "states = distinct feasible paths of the real code executed by the concolic go/ssa engine within the stated bounds; transitions = symbolic branch decisions recorded on them; " +
			"every decision was offered to the SMT solver for flipping (flip_queries) until no feasible unexplored alternative remained; every assertion reached with a symbolic condition was discharged as PC and not(cond) unsat (obligations/discharged). " +
			"traces_validated_against_impl = explored paths re-run natively (go test -overlay against /repo) with identical status and observations.",
		"harnesses":          harnesses,
		"functions_encoded":  fl,
		"queries":            map[string]int{"flips": flips, "flip_sat": flipSat, "flip_unsat": flipUnsat, "obligations": obl, "obligations_unsat": dis, "unknown": unknown},
		"obligations":        obl,
		"discharged":         dis,
		"solver_time_s":      solverTime,
		"interp_time_s":      interpTime,
		"covers_hit":         cl,
		"assert_labels":      labels,
		"known_findings_seen": kl,
		"bounds":             pd.Bounds,
		"stubs":              pd.Stubs,
		"outside_claim":      pd.Outside,
		"inconclusive":       inconclusive,
		"engine_mismatches":  mismatches,
	}
	return map[string]interface{}{
		"property_id": prop,
		"tier":        tier,
		"seed":        seed,
		"level":       "model_checking",
		"coverage":    cov,
		"assumptions": pd.Assumptions,
		"wall_s":      wall.Seconds(),
		"violations":  violations,
	}
}
