package main

import (
	"fmt"
	"math/rand"
	"strings"

	"symx/smt"
	"symx/term"
)

// cmdSelftest cross-checks the term layer against every installed solver: for random operands
// the engine's evaluator, z3 4.8.12, z3-new and cvc5 must agree on the value of every operator
// (this is the translator's ground truth: constant folding, the SMT-LIB printer and the model
// evaluator used to validate solver models all rest on it).
func cmdSelftest() int {
	rng := rand.New(rand.NewSource(7))
	bin := []term.Op{term.BvAnd, term.BvOr, term.BvXor, term.BvAdd, term.BvSub, term.BvMul, term.BvUDiv, term.BvURem, term.BvSDiv, term.BvSRem, term.BvShl, term.BvLShr, term.BvAShr}
	cmp := []term.Op{term.BvUlt, term.BvUle, term.BvSlt, term.BvSle}
	widths := []int{8, 16, 32, 64}
	special := []uint64{0, 1, 2, 0x7f, 0x80, 0xff, 0x7fff, 0x8000, 0xffff, 0x7fffffff, 0x80000000, 0xffffffff, 1<<63 - 1, 1 << 63, ^uint64(0)}
	pick := func(w int) uint64 {
		var v uint64
		if rng.Intn(2) == 0 {
			v = special[rng.Intn(len(special))]
		} else {
			v = rng.Uint64()
		}
		if w < 64 {
			v &= (uint64(1) << uint(w)) - 1
		}
		return v
	}
	failures := 0
	for _, kind := range []string{"z3", "z3-new", "cvc5"} {
		s, err := smt.New(kind, 20000)
		if err != nil {
			fmt.Println("selftest: solver", kind, "unavailable:", err)
			return 2
		}
		checked := 0
		for round := 0; round < 60; round++ {
			tb := term.NewBuilder()
			w := widths[rng.Intn(len(widths))]
			a, b := tb.NewVar("a", w), tb.NewVar("b", w)
			va, vb := pick(w), pick(w)
			env := map[string]uint64{"a": va, "b": vb}
			var ts []*term.Term
			for _, op := range bin {
				ts = append(ts, tb.Bin(op, a, b))
			}
			for _, op := range cmp {
				ts = append(ts, tb.BoolToBV(tb.Cmp(op, a, b), w))
			}
			ts = append(ts, tb.Un(term.BvNot, a), tb.Un(term.BvNeg, a), tb.BoolToBV(tb.Eq(a, b), w),
				tb.Ite(tb.Cmp(term.BvUlt, a, b), a, b))
			if w < 64 {
				ts = append(ts, tb.Extract(tb.SExt(a, 64), w-1, 0), tb.Extract(tb.ZExt(a, 64), w-1, 0))
				ts = append(ts, tb.Extract(tb.Bin(term.BvAdd, tb.SExt(a, 64), tb.ZExt(b, 64)), w-1, 0))
			}
			if w >= 16 {
				ts = append(ts, tb.ZExt(tb.Extract(a, 7, 0), w), tb.ZExt(tb.Concat(tb.Extract(a, 7, 0), tb.Extract(b, 7, 0)), w))
			}
			pr := term.NewPrinter()
			var sb strings.Builder
			s.Send("(push 1)\n")
			pr.Define(&sb, a)
			pr.Define(&sb, b)
			fmt.Fprintf(&sb, "(assert (= %s (_ bv%d %d)))\n(assert (= %s (_ bv%d %d)))\n", pr.Ref(a), va, w, pr.Ref(b), vb, w)
			outs := make([]*term.Term, len(ts))
			for k, t := range ts {
				o := tb.NewVar(fmt.Sprintf("o%d", k), w)
				outs[k] = o
				pr.Define(&sb, o)
				pr.Define(&sb, t)
				fmt.Fprintf(&sb, "(assert (= %s %s))\n", pr.Ref(o), pr.Ref(t))
			}
			s.Send(sb.String())
			r, err := s.Check()
			if err != nil || r != smt.Sat {
				fmt.Printf("selftest: %s: unexpected verdict %v %v\n", kind, r, err)
				failures++
				s.Send("(pop 1)\n")
				continue
			}
			m, err := s.Model(outs)
			if err != nil {
				fmt.Printf("selftest: %s: model error %v\n", kind, err)
				failures++
			}
			for k, t := range ts {
				want := term.Eval(t, env, nil)
				if got := m[fmt.Sprintf("o%d", k)]; got != want {
					fmt.Printf("selftest: %s disagrees with the engine on %s (w=%d a=%d b=%d): solver %d, engine %d\n", kind, t, w, va, vb, got, want)
					failures++
				}
				checked++
			}
			s.Send("(pop 1)\n")
		}
		s.Close()
		fmt.Printf("selftest: %s agrees with the engine's evaluator on %d operator instances\n", kind, checked)
	}
	if failures > 0 {
		return 2
	}
	return 0
}
