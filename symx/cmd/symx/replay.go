package main

import (
	"encoding/json"
	"flag"
	"fmt"
	"os"
	"path/filepath"
	"strings"
	"time"

	"symx/explore"
)

// cmdReplay re-executes one counterexample file: concretely in the engine on the current
// tree's SSA and, unless the harness is engine-only, natively through go test -overlay.
func cmdReplay(args []string) int {
	fs := flag.NewFlagSet("replay", flag.ExitOnError)
	repo := fs.String("repo", "/repo", "")
	vdir := fs.String("verif", "/verif", "")
	fs.Parse(args)
	if fs.NArg() != 1 {
		fmt.Println("usage: symx replay [-verif dir] <counterexample.json>")
		return 2
	}
	raw, err := os.ReadFile(fs.Arg(0))
	if err != nil {
		fmt.Println(err)
		return 2
	}
	var c explore.Counterexample
	if err := json.Unmarshal(raw, &c); err != nil {
		fmt.Println(err)
		return 2
	}
	dir, name := pkgOf(c.Harness)
	hdir := filepath.Join(*vdir, "harness")
	p, err := explore.Load(*repo, hdir, []string{"./" + dir})
	if err != nil {
		fmt.Println("load failed:", err)
		return 2
	}
	known := map[string]bool{}
	for _, k := range c.Known {
		known[k] = true
	}
	// which harness definition is it (for sched / native flags)?
	var props map[string]PropDef
	if b, err := os.ReadFile(filepath.Join(hdir, "props.json")); err == nil {
		json.Unmarshal(b, &props)
	}
	sched, pre, native := false, 0, true
	var mapOrder []string
	for _, pd := range props {
		for _, h := range pd.Harnesses {
			if h.Fn == c.Harness {
				sched, pre, mapOrder = h.Sched, h.MaxPreempt, h.MapOrder
				native = h.Native == nil || *h.Native
			}
		}
	}
	e := &explore.Explorer{P: p, Workers: 1, Timeout: 10000, Known: known}
	res, err := e.RunOnce(explore.HarnessSpec{Name: c.Harness, Params: c.Params, Sched: sched, MaxPre: pre, MapOrder: mapOrder}, c.Vars)
	if err != nil {
		fmt.Println("engine replay failed:", err)
		return 2
	}
	fmt.Printf("engine: status=%s %s\n", res.Status, res.Msg)
	for _, ev := range res.Events {
		if ev.Kind == "violation" || ev.Kind == "race" || ev.Kind == "observe" {
			fmt.Printf("  %s %s %s\n", ev.Kind, ev.Label, ev.Value)
		}
	}
	reproduced := res.Status == "violation" || res.Status == "panic-escape" || res.Status == "deadlock"
	if native && c.Status != "deadlock" {
		outs, _, err := p.NativeReplay(dir, name, []explore.NativeVector{{Harness: c.Harness, Vars: c.Vars, Params: c.Params, Known: c.Known}}, 10*time.Minute)
		if err != nil {
			fmt.Println("native replay failed:", err)
			return 2
		}
		fmt.Printf("native: status=%s %s %s\n", outs[0].Status, outs[0].Label, strings.TrimSpace(outs[0].Msg))
		reproduced = reproduced && (outs[0].Status == "violation" || outs[0].Status == "panic")
	} else {
		fmt.Println("native: not applicable (engine-only harness)")
	}
	if reproduced {
		fmt.Println("REPRODUCED", c.Label)
		return 1
	}
	fmt.Println("not reproduced on this tree")
	return 0
}
