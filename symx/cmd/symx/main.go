package main

import (
	"encoding/json"
	"flag"
	"fmt"
	"os"
	"strings"
	"time"

	"symx/explore"
)

func main() {
	if len(os.Args) < 2 {
		fmt.Fprintln(os.Stderr, "usage: symx run|harness ...")
		os.Exit(2)
	}
	switch os.Args[1] {
	case "harness":
		cmdHarness(os.Args[2:])
	case "run":
		os.Exit(cmdRun(os.Args[2:]))
	case "replay":
		os.Exit(cmdReplay(os.Args[2:]))
	case "selftest":
		os.Exit(cmdSelftest())
	default:
		fmt.Fprintln(os.Stderr, "unknown command", os.Args[1])
		os.Exit(2)
	}
}

// cmdHarness runs a single harness (development aid).
func cmdHarness(args []string) {
	fs := flag.NewFlagSet("harness", flag.ExitOnError)
	repo := fs.String("repo", "/repo", "")
	hdir := fs.String("harness", "/verif/harness", "")
	pkg := fs.String("pkg", "./wasp", "")
	fn := fs.String("fn", "", "")
	verbose := fs.Bool("v", false, "")
	workers := fs.Int("j", 16, "")
	solver := fs.String("solver", "z3", "")
	params := fs.String("params", "{}", "")
	maxPaths := fs.Int("maxpaths", 0, "")
	knownFlag := fs.String("known", "", "comma-separated open finding ids")
	sched := fs.Int("sched", -1, "explore schedules with this many preemptions")
	mapOrder := fs.String("maporder", "", "comma-separated function-name substrings whose map ranges get a solver-chosen start")
	fs.Parse(args)
	t0 := time.Now()
	p, err := explore.Load(*repo, *hdir, []string{*pkg})
	if err != nil {
		fmt.Fprintln(os.Stderr, err)
		os.Exit(2)
	}
	fmt.Fprintf(os.Stderr, "loaded in %v\n", time.Since(t0))
	e := &explore.Explorer{P: p, Workers: *workers, Timeout: 10000, Verbose: *verbose, Known: map[string]bool{}}
	for _, k := range strings.Split(*knownFlag, ",") {
		if k != "" {
			e.Known[k] = true
		}
	}
	spec := explore.HarnessSpec{Name: *fn, Solver: *solver, MaxPaths: *maxPaths, Params: map[string]int{}}
	json.Unmarshal([]byte(*params), &spec.Params)
	if *mapOrder != "" {
		spec.MapOrder = strings.Split(*mapOrder, ",")
	}
	if *sched >= 0 {
		spec.Sched, spec.MaxPre = true, *sched
	}
	st, err := e.Run(spec)
	if err != nil {
		fmt.Fprintln(os.Stderr, "error:", err)
	}
	st.Funcs = nil
	st.Witnesses = nil
	b, _ := json.MarshalIndent(st, "", " ")
	fmt.Println(string(b))
	fmt.Fprintf(os.Stderr, "total %v\n", time.Since(t0))
}
