package main

import (
	"encoding/json"
	"flag"
	"fmt"
	"math/rand"
	"os"
	"path/filepath"
	"sort"
	"strconv"
	"strings"
	"time"

	"symx/explore"
)

type HarnessDef struct {
	Fn       string         `json:"fn"`
	Quick    map[string]int `json:"quick"`
	Thorough map[string]int `json:"thorough"`
	Solver   string         `json:"solver"`
	Native   *bool          `json:"native"`
	Sched    bool           `json:"sched"`
	QuickOnly    bool       `json:"quick_only"`
	ThoroughOnly bool       `json:"thorough_only"`
	MaxPaths int            `json:"max_paths"`
	MaxPreempt int          `json:"max_preempt"`
	MapOrder   []string     `json:"map_order_fns"`
	NativeLimit int         `json:"native_limit"`
}

type PropDef struct {
	Pkgs        []string     `json:"pkgs"`
	Harnesses   []HarnessDef `json:"harnesses"`
	Assumptions []string     `json:"assumptions"`
	Outside     []string     `json:"outside_claim"`
	Stubs       []string     `json:"stubs"`
	Bounds      map[string]string `json:"bounds"`
}

type Finding struct {
	ID       string `json:"id"`
	Property string `json:"property"`
	Status   string `json:"status"` // open | fixed
	Commit   string `json:"commit,omitempty"`
	What     string `json:"what"`
}

func pkgOf(fn string) (dir, name string) {
	k := strings.LastIndex(fn, ".")
	path := fn[:k]
	dir = strings.TrimPrefix(strings.TrimPrefix(path, explore.Module), "/")
	name = path[strings.LastIndex(path, "/")+1:]
	return
}

func cmdRun(args []string) int {
	fs := flag.NewFlagSet("run", flag.ExitOnError)
	repo := fs.String("repo", "/repo", "")
	vdir := fs.String("verif", "/verif", "")
	prop := fs.String("prop", "", "")
	tier := fs.String("tier", "quick", "")
	verbose := fs.Bool("v", false, "")
	workers := fs.Int("j", 16, "")
	only := fs.String("only", "", "run only harnesses whose name contains this")
	noNative := fs.Bool("no-native", false, "")
	fs.Parse(args)
	if t := os.Getenv("VERIF_TIER"); t == "quick" || t == "thorough" {
		*tier = t
	}
	seed := int64(1)
	if s, err := strconv.ParseInt(os.Getenv("VERIF_SEED"), 10, 64); err == nil {
		seed = s
	}
	t0 := time.Now()
	hdir := filepath.Join(*vdir, "harness")

	var props map[string]PropDef
	raw, err := os.ReadFile(filepath.Join(hdir, "props.json"))
	if err == nil {
		err = json.Unmarshal(raw, &props)
	}
	if err != nil {
		fmt.Println("INCONCLUSIVE cannot read props.json:", err)
		return 2
	}
	pd, ok := props[*prop]
	if !ok {
		fmt.Println("INCONCLUSIVE unknown property", *prop)
		return 2
	}
	var findings []Finding
	if raw, err := os.ReadFile(filepath.Join(*vdir, "known_findings.json")); err == nil {
		if err := json.Unmarshal(raw, &findings); err != nil {
			fmt.Println("INCONCLUSIVE bad known_findings.json:", err)
			return 2
		}
	}
	known := map[string]bool{}
	whatOf := map[string]string{}
	for _, f := range findings {
		if f.Property == *prop && f.Status == "open" {
			known[f.ID] = true
			whatOf[f.ID] = f.What
		}
	}

	p, err := explore.Load(*repo, hdir, pd.Pkgs)
	if err != nil {
		fmt.Println("INCONCLUSIVE load failed:", err)
		return 2
	}
	fmt.Printf("symx: loaded %v from %s in %.1fs\n", pd.Pkgs, *repo, p.LoadTime.Seconds())

	var results []hres
	inconclusive := []string{}
	for _, h := range pd.Harnesses {
		if *only != "" && !strings.Contains(h.Fn, *only) {
			continue
		}
		if (*tier == "quick" && h.ThoroughOnly) || (*tier == "thorough" && h.QuickOnly) {
			continue
		}
		params := h.Quick
		if *tier == "thorough" && h.Thorough != nil {
			params = h.Thorough
		}
		e := &explore.Explorer{P: p, Workers: *workers, Timeout: 20000, Verbose: *verbose, Known: known}
		if *tier == "thorough" {
			e.Timeout = 60000
		}
		spec := explore.HarnessSpec{Name: h.Fn, Params: params, Solver: h.Solver, Sched: h.Sched, MaxPaths: h.MaxPaths, MaxPre: h.MaxPreempt, MapOrder: h.MapOrder}
		th := time.Now()
		st, err := e.Run(spec)
		if err != nil {
			fmt.Println("INCONCLUSIVE", h.Fn, err)
			return 2
		}
		fmt.Printf("symx: %s params=%v paths=%d records=%d flips=%d(sat %d) obligations=%d/%d concrete-asserts=%d unknown=%d cex=%d solver=%.1fs wall=%.1fs\n",
			h.Fn[strings.LastIndex(h.Fn, ".")+1:], params, st.Paths, st.Records, st.Flips, st.FlipSat, st.Discharged, st.Obligations, st.ConcreteAsserts, st.Unknown, len(st.Cex), st.SolverTime.Seconds(), time.Since(th).Seconds())
		for _, m := range st.Inconclusive {
			inconclusive = append(inconclusive, m)
		}
		if st.Truncated {
			inconclusive = append(inconclusive, "exploration truncated by budget: "+h.Fn)
		}
		for l := range st.CoverReached {
			if !st.CoverHit[l] {
				inconclusive = append(inconclusive, "VACUOUS cover "+l+" never satisfied")
			}
		}
		if st.Completed == 0 && len(st.Cex) == 0 {
			inconclusive = append(inconclusive, "VACUOUS no path of "+h.Fn+" ran to the end of the harness (every path failed an assumption)")
		}
		if len(st.AssertLabels) == 0 && len(st.Cex) == 0 {
			inconclusive = append(inconclusive, "VACUOUS no assertion reached in "+h.Fn)
		}
		results = append(results, hres{h, st, params})
	}

	// ---- native replay of witnesses and counterexamples ----
	rng := rand.New(rand.NewSource(seed))
	validated := 0
	mismatches := []string{}
	type cexOut struct {
		explore.Counterexample
		reproduced bool
		native     bool
	}
	var cexs []cexOut
	var knownList []string
	for k := range known {
		knownList = append(knownList, k)
	}
	sort.Strings(knownList)
	for _, r := range results {
		native := r.def.Native == nil || *r.def.Native
		dir, name := pkgOf(r.def.Fn)
		var vecs []explore.NativeVector
		var expect []explore.Witness
		if native && !*noNative {
			ws := r.st.Witnesses
			limit := 60
			if *tier == "thorough" {
				limit = 200
			}
			if r.def.NativeLimit > 0 && limit > r.def.NativeLimit {
				limit = r.def.NativeLimit // harnesses whose native run waits on real timers
			}
			if len(ws) > limit {
				rng.Shuffle(len(ws), func(a, b int) { ws[a], ws[b] = ws[b], ws[a] })
				ws = ws[:limit]
			}
			for _, w := range ws {
				vecs = append(vecs, explore.NativeVector{Harness: w.Harness, Vars: w.Vars, Params: w.Params, Known: knownList})
				expect = append(expect, w)
			}
		}
		nw := len(vecs)
		if !*noNative && native {
			for _, c := range r.st.Cex {
				if c.Status == "deadlock" {
					continue
				}
				vecs = append(vecs, explore.NativeVector{Harness: c.Harness, Vars: c.Vars, Params: c.Params, Known: knownList})
			}
		}
		if len(vecs) == 0 || !native {
			for _, c := range r.st.Cex {
				c.Native = "not replayed natively (engine-only harness): re-executed concretely by the engine on the real SSA"
				cexs = append(cexs, cexOut{c, false, false})
			}
			continue
		}
		outs, logs, err := p.NativeReplay(dir, name, vecs, 20*time.Minute)
		if err != nil {
			fmt.Println("INCONCLUSIVE native replay:", err)
			_ = logs
			return 2
		}
		agrees := func(w explore.Witness, o explore.NativeOutcome) bool {
			okStatus := (w.Status == "ok" && o.Status == "ok") ||
				(w.Status == "violation" && o.Status == "violation" && o.Label == w.Label) ||
				(w.Status == "panic-escape" && o.Status == "panic")
			return okStatus && (w.Status != "ok" || strings.Join(w.Observed, "|") == strings.Join(o.Observed, "|"))
		}
		var again []int
		for k, w := range expect {
			if agrees(w, outs[k]) {
				validated++
			} else {
				again = append(again, k)
			}
		}
		if len(again) > 0 {
			// natively "settled" is a timed pause: re-run the disagreeing witnesses with long pauses
			var vs []explore.NativeVector
			for _, k := range again {
				vs = append(vs, vecs[k])
			}
			outs2, _, err := p.NativeReplaySlow(dir, name, vs, 20*time.Minute)
			if err != nil {
				fmt.Println("INCONCLUSIVE native replay:", err)
				return 2
			}
			for j, k := range again {
				w, o := expect[k], outs2[j]
				if agrees(w, o) {
					validated++
				} else {
					mismatches = append(mismatches, fmt.Sprintf("%s vars=%v: engine %s %v / native %s %s %v %s", w.Harness, w.Vars, w.Status, w.Observed, o.Status, o.Label, o.Observed, o.Msg))
				}
			}
		}
		vi := nw
		for _, c := range r.st.Cex {
			if c.Status == "deadlock" {
				c.Native = "not replayed natively (a deadlock would hang the native test): re-executed concretely by the engine"
				cexs = append(cexs, cexOut{c, false, false})
				continue
			}
			o := outs[vi]
			vi++
			rep := (c.Status == "violation" && o.Status == "violation" && o.Label == c.Label) || (c.Status == "panic-escape" && o.Status == "panic")
			if !rep {
				// once more with long settling pauses before calling it an engine mismatch
				if o2, _, err := p.NativeReplaySlow(dir, name, []explore.NativeVector{vecs[vi-1]}, 20*time.Minute); err == nil && len(o2) == 1 {
					o = o2[0]
					rep = (c.Status == "violation" && o.Status == "violation" && o.Label == c.Label) || (c.Status == "panic-escape" && o.Status == "panic")
				}
			}
			// Go randomises map iteration per run and the engine iterates in insertion order: a
			// counterexample that depends on the order of a map range (snapshot dumps, client-id
			// lookup) reproduces natively only in some runs. Any native run that shows the same
			// violated assertion confirms it, so a few more attempts are made before the
			// counterexample is reported as an engine mismatch.
			for try := 0; !rep && try < 8; try++ {
				if o2, _, err := p.NativeReplay(dir, name, []explore.NativeVector{vecs[vi-1]}, 20*time.Minute); err == nil && len(o2) == 1 {
					if (c.Status == "violation" && o2[0].Status == "violation" && o2[0].Label == c.Label) || (c.Status == "panic-escape" && o2[0].Status == "panic") {
						o, rep = o2[0], true
					}
				}
			}
			c.Native = o.Status + " " + o.Label + " " + o.Msg
			cexs = append(cexs, cexOut{c, rep, true})
		}
	}

	// ---- verdict ----
	exit := 0
	outDir := filepath.Join(*vdir, "out", *prop)
	os.MkdirAll(outDir, 0755)
	violations := 0
	for k, c := range cexs {
		short := c.Harness[strings.LastIndex(c.Harness, ".")+1:]
		path := filepath.Join(outDir, fmt.Sprintf("%s-%d.json", short, k))
		b, _ := json.MarshalIndent(c.Counterexample, "", " ")
		os.WriteFile(path, b, 0644)
		if c.reproduced || *noNative || !c.native {
			violations++
			fmt.Printf("VIOLATION property=%s replay=%s\n", *prop, path)
			fmt.Printf("  %s: %s %s vars=%v native=%q\n", short, c.Label, c.Msg, c.Vars, c.Native)
			exit = 1
		} else {
			mismatches = append(mismatches, fmt.Sprintf("counterexample %s (%s) did not reproduce natively: %s", path, c.Label, c.Native))
		}
	}
	seen := map[string]bool{}
	for _, r := range results {
		for k := range r.st.KnownSeen {
			seen[k] = true
		}
	}
	for _, k := range knownList {
		if seen[k] {
			fmt.Printf("KNOWN-FINDING: property=%s %s %s\n", *prop, k, whatOf[k])
		} else {
			fmt.Printf("symx: note: open finding %s was not observed on this tree\n", k)
		}
	}
	for _, m := range mismatches {
		fmt.Println("ENGINE-MISMATCH", m)
	}
	for _, m := range inconclusive {
		fmt.Println("INCONCLUSIVE", m)
	}
	if exit == 0 && (len(mismatches) > 0 || len(inconclusive) > 0) {
		exit = 2
	}

	// ---- evidence ----
	ev := buildEvidence(*prop, *tier, seed, pd, results, validated, violations, seen, time.Since(t0), inconclusive, mismatches)
	os.MkdirAll(filepath.Join(*vdir, "evidence"), 0755)
	b, _ := json.MarshalIndent(ev, "", " ")
	if err := os.WriteFile(filepath.Join(*vdir, "evidence", *prop+".json"), b, 0644); err != nil {
		fmt.Println("INCONCLUSIVE cannot write evidence:", err)
		return 2
	}
	fmt.Printf("symx: property=%s tier=%s exit=%d wall=%.1fs\n", *prop, *tier, exit, time.Since(t0).Seconds())
	return exit
}

type hres struct {
	def    HarnessDef
	st     *explore.Stats
	params map[string]int
}
